# Deliberate property-breaking changes (DESIGN.md section 6). Each entry: id, property (or list), edits [(file, old, new)].
MUTANTS = []
def M(id, prop, *edits, why=''):
    MUTANTS.append(dict(id=id, prop=prop, edits=list(edits), why=why))

# ---- C12
M('c12-meet-cmp', 'C12', ('ivg.go', "\tif vdx/vdy < vbAR {\n\t\tvdy = vdx / vbAR", "\tif vdx/vdy > vbAR {\n\t\tvdy = vdx / vbAR"))
M('c12-slice-align-swap', 'C12', ('ivg.go', "\tminX := (dx - vdx) * ax\n\tmaxX := minX + vdx\n\tminY := (dy - vdy) * ay\n\tmaxY := minY + vdy\n\treturn minX, minY, maxX, maxY\n}\n\n// Metadata", "\tminX := (dx - vdx) * ay\n\tmaxX := minX + vdx\n\tminY := (dy - vdy) * ax\n\tmaxY := minY + vdy\n\treturn minX, minY, maxX, maxY\n}\n\n// Metadata"))
M('c12-maxy', 'C12', ('ivg.go', "\tmaxY := minY + vdy\n\treturn minX, minY, maxX, maxY\n}\n\n// AspectSlice", "\tmaxY := minY + vdx\n\treturn minX, minY, maxX, maxY\n}\n\n// AspectSlice"))

# ---- C03
M('c03-L-reps', 'C03', ('decode/decode.go', "\t\t\top = \"L (absolute lineTo)\"\n\t\t\tnCoords = 2\n\t\t\tnReps = 1 + int(opcode&0x1f)", "\t\t\top = \"L (absolute lineTo)\"\n\t\t\tnCoords = 2\n\t\t\tnReps = 1 + int(opcode&0x0f)"))
M('c03-swap-HV', 'C03', ('decode/decode.go', "\tcase opcode == 0xe6:", "\tcase opcode == 0xe8:"), ('decode/decode.go', "\tcase opcode == 0xe8:\n\t\tif p != nil {\n\t\t\tp(src[:1], \"V (absolute vertical", "\tcase opcode == 0xe6:\n\t\tif p != nil {\n\t\t\tp(src[:1], \"V (absolute vertical"))
M('c03-a8-boundary', 'C03', ('decode/decode.go', "\tcase opcode < 0xa8:\n\t\treturn decodeSetCReg", "\tcase opcode <= 0xa8:\n\t\treturn decodeSetCReg"))
M('c03-z2o-128', 'C03', ('decode/buffer.go', "return float32(u) / 120, n", "return float32(u) / 128, n"))
M('c03-sweep-bit', 'C03', ('decode/decode.go', "return (x>>0)&0x01 != 0, (x>>1)&0x01 != 0, src[n:], nil", "return (x>>0)&0x01 != 0, (x>>2)&0x01 != 0, src[n:], nil"))
M('c03-nreg-incr', 'C03', ('decode/decode.go', "\tdecode, typ, adj := buffer.decodeZeroToOne, \"zero-to-one\", opcode&0x07\n\tincr := adj == 7\n\tif incr {\n\t\tadj = 0\n\t}", "\tdecode, typ, adj := buffer.decodeZeroToOne, \"zero-to-one\", opcode&0x07\n\tincr := adj == 7 && opcode != 0xb7\n\tif adj == 7 {\n\t\tadj = 0\n\t}"))
M('c03-revert-F4', 'C03', ('decode/decode.go', "\t\t\tif int64(mid) <= prevMID {", "\t\t\tif false && int64(mid) <= prevMID {"))

# ---- C13
M('c13-vb-ge', 'C13', ('decode/decode.go', "if m.ViewBox.MinX > m.ViewBox.MaxX ||", "if m.ViewBox.MinX >= m.ViewBox.MaxX ||"))
M('c13-pal-loop', 'C13', ('decode/decode.go', "\t\tfor i := 0; i < length; i++ {\n\t\t\tc, n := decode(src)", "\t\tfor i := 0; i <= length && i < 64; i++ {\n\t\t\tc, n := decode(src)"))
M('c13-lenwant-after-mid', 'C13', ('decode/decode.go', "\tsrc = src[n:]\n\tlenSrcWant := int64(len(src)) - int64(length)\n\n\tmid, n := src.decodeNatural()", "\tsrc = src[n:]\n\n\tmid, n := src.decodeNatural()\n\tlenSrcWant := int64(len(src)) - int64(n) - int64(length) + int64(n)*0 + 1 - 1"), why='compute the wanted rest length after reading the MID (off by the MID width)')
M('c13-raw-palette', 'C13', ('decode/decode.go', "\t\t\trgba, _ := c.RGBA()\n", "\t\t\trgba, _ := c.RGBA()\n\t\t\tif x, ok := c.Encode4(); ok {\n\t\t\t\trgba = color.RGBA{x[0], x[1], x[2], x[3]}\n\t\t\t}\n"))
M('c13-nan-viewbox', 'C13', ('decode/decode.go', "\t\t\tisNaNOrInfinity(m.ViewBox.MaxX) || isNaNOrInfinity(m.ViewBox.MaxY) {", "\t\t\tisNaNOrInfinity(m.ViewBox.MaxX) {"))

# ---- C02
M('c02-color3-guard', 'C02', ('decode/buffer.go', "func (b buffer) decodeColor3Direct() (c ivg.Color, n int) {\n\tif len(b) < 3 {", "func (b buffer) decodeColor3Direct() (c ivg.Color, n int) {\n\tif len(b) < 2 {"))
M('c02-reset-early', 'C02', ('decode/decode.go', "\tprevMID := int64(-1)\n", "\tprevMID := int64(-1)\n\tif dst != nil && !metadataOnly && nMetadataChunks > 0 {\n\t\tdst.Reset(m.ViewBox, m.Palette)\n\t}\n"))
M('c02-int-length', 'C02', ('decode/decode.go', "lenSrcWant := int64(len(src)) - int64(length)", "lenSrcWant := int64(int32(len(src)) - int32(length<<2)>>2)"))
M('c02-arc-n-noabs', 'C02', ('render/render.go', "n := int(math.Ceil(math.Abs(deltaTheta) / (math.Pi/2 + 0.001)))", "n := int(math.Ceil(math.Abs(deltaTheta) / (math.Pi/8 + 0.001)))"))
M('c02-src-write', 'C02', ('decode/decode.go', "\tcase opcode == 0xc7:\n\t\treturn decodeSetLOD(dst, p, src)", "\tcase opcode == 0xc7:\n\t\tsrc[0] = 0xc7 &^ 0\n\t\tif len(src) > 1 && src[1] == 0xfe {\n\t\t\tsrc[1] = 0xfc\n\t\t}\n\t\treturn decodeSetLOD(dst, p, src)"))

# ---- C11
M('c11-drop-last-byte', 'C11', ('decode/decode.go', "\t\tfor i, x := range b {\n\t\t\tbuf[3*i+0] = hex[x>>4]", "\t\tfor i, x := range b {\n\t\t\tif i == 3 {\n\t\t\t\tbreak\n\t\t\t}\n\t\t\tbuf[3*i+0] = hex[x>>4]"))
M('c11-implicit-omitted', 'C11', ('decode/decode.go', "\t\t\tif p != nil && i != 0 {", "\t\t\tif p != nil && i != 0 && i != nReps-1 {"))
M('c11-adj-raw', 'C11', ('decode/decode.go', "\t\t\tp(src[:1], \"Set CREG[CSEL-%d] to a %d byte%s color\\n\", adj, nBytes, directness)", "\t\t\tp(src[:1], \"Set CREG[CSEL-%d] to a %d byte%s color\\n\", opcode&0x03, nBytes, directness)"))
M('c11-flags-print', 'C11', ('decode/decode.go', "p(src[:n], \"    %#x (largeArc=%d, sweep=%d)\\n\", x, (x>>0)&0x01, (x>>1)&0x01)", "p(src[:n], \"    %#x (largeArc=%d, sweep=%d)\\n\", x, (x>>1)&0x01, (x>>0)&0x01)"))
M('c11-nreg-precision', 'C11', ('decode/decode.go', "\t\tp(src[:n], \"    %g\\n\", f)", "\t\tp(src[:n], \"    %.6g\\n\", f)"))
