# Deliberate property-breaking changes (DESIGN.md section 6). Each entry: id, property (or list), edits [(file, old, new)].
MUTANTS = []
def M(id, prop, *edits, why=''):
    MUTANTS.append(dict(id=id, prop=prop, edits=list(edits), why=why))

# ---- C12
M('c12-meet-cmp', 'C12', ('ivg.go', "\tif vdx/vdy < vbAR {\n\t\tvdy = vdx / vbAR", "\tif vdx/vdy > vbAR {\n\t\tvdy = vdx / vbAR"))
M('c12-slice-align-swap', 'C12', ('ivg.go', "\tminX := (dx - vdx) * ax\n\tmaxX := minX + vdx\n\tminY := (dy - vdy) * ay\n\tmaxY := minY + vdy\n\treturn minX, minY, maxX, maxY\n}\n\n// Metadata", "\tminX := (dx - vdx) * ay\n\tmaxX := minX + vdx\n\tminY := (dy - vdy) * ax\n\tmaxY := minY + vdy\n\treturn minX, minY, maxX, maxY\n}\n\n// Metadata"))
M('c12-maxy', 'C12', ('ivg.go', "\tmaxY := minY + vdy\n\treturn minX, minY, maxX, maxY\n}\n\n// AspectSlice", "\tmaxY := minY + vdx\n\treturn minX, minY, maxX, maxY\n}\n\n// AspectSlice"))

# ---- C03
M('c03-L-reps', 'C03', ('decode/decode.go', "\t\t\top = \"L (absolute lineTo)\"\n\t\t\tnCoords = 2\n\t\t\tnReps = 1 + int(opcode&0x1f)", "\t\t\top = \"L (absolute lineTo)\"\n\t\t\tnCoords = 2\n\t\t\tnReps = 1 + int(opcode&0x0f)"))
M('c03-swap-HV', 'C03', ('decode/decode.go', "\tcase opcode == 0xe6:", "\tcase opcode == 0xe8:"), ('decode/decode.go', "\tcase opcode == 0xe8:\n\t\tif p != nil {\n\t\t\tp(src[:1], \"V (absolute vertical", "\tcase opcode == 0xe6:\n\t\tif p != nil {\n\t\t\tp(src[:1], \"V (absolute vertical"))
M('c03-a8-boundary', 'C03', ('decode/decode.go', "\tcase opcode < 0xa8:\n\t\treturn decodeSetCReg", "\tcase opcode <= 0xa8:\n\t\treturn decodeSetCReg"))
M('c03-z2o-128', 'C03', ('decode/buffer.go', "return float32(u) / 120, n", "return float32(u) / 128, n"))
M('c03-sweep-bit', 'C03', ('decode/decode.go', "return (x>>0)&0x01 != 0, (x>>1)&0x01 != 0, src[n:], nil", "return (x>>0)&0x01 != 0, (x>>2)&0x01 != 0, src[n:], nil"))
M('c03-nreg-incr', 'C03', ('decode/decode.go', "\tdecode, typ, adj := buffer.decodeZeroToOne, \"zero-to-one\", opcode&0x07\n\tincr := adj == 7\n\tif incr {\n\t\tadj = 0\n\t}", "\tdecode, typ, adj := buffer.decodeZeroToOne, \"zero-to-one\", opcode&0x07\n\tincr := adj == 7 && opcode != 0xb7\n\tif adj == 7 {\n\t\tadj = 0\n\t}"))
M('c03-revert-F4', 'C03', ('decode/decode.go', "\t\t\tif int64(mid) <= prevMID {", "\t\t\tif false && int64(mid) <= prevMID {"))

# ---- C13
M('c13-vb-ge', 'C13', ('decode/decode.go', "if m.ViewBox.MinX > m.ViewBox.MaxX ||", "if m.ViewBox.MinX >= m.ViewBox.MaxX ||"))
M('c13-pal-loop', 'C13', ('decode/decode.go', "\t\tfor i := 0; i < length; i++ {\n\t\t\tc, n := decode(src)", "\t\tfor i := 0; i <= length && i < 64; i++ {\n\t\t\tc, n := decode(src)"))
M('c13-lenwant-after-mid', 'C13', ('decode/decode.go', "\tsrc = src[n:]\n\tlenSrcWant := int64(len(src)) - int64(length)\n\n\tmid, n := src.decodeNatural()", "\tsrc = src[n:]\n\n\tmid, n := src.decodeNatural()\n\tlenSrcWant := int64(len(src)) - int64(n) - int64(length) + int64(n)*0 + 1 - 1"), why='compute the wanted rest length after reading the MID (off by the MID width)')
M('c13-raw-palette', 'C13', ('decode/decode.go', "\t\t\trgba, _ := c.RGBA()\n", "\t\t\trgba, _ := c.RGBA()\n\t\t\tif x, ok := c.Encode4(); ok {\n\t\t\t\trgba = color.RGBA{x[0], x[1], x[2], x[3]}\n\t\t\t}\n"))
M('c13-nan-viewbox', 'C13', ('decode/decode.go', "\t\t\tisNaNOrInfinity(m.ViewBox.MaxX) || isNaNOrInfinity(m.ViewBox.MaxY) {", "\t\t\tisNaNOrInfinity(m.ViewBox.MaxX) {"))

# ---- C02
M('c02-color3-guard', 'C02', ('decode/buffer.go', "func (b buffer) decodeColor3Direct() (c ivg.Color, n int) {\n\tif len(b) < 3 {", "func (b buffer) decodeColor3Direct() (c ivg.Color, n int) {\n\tif len(b) < 2 {"))
M('c02-reset-early', 'C02', ('decode/decode.go', "\tprevMID := int64(-1)\n", "\tprevMID := int64(-1)\n\tif dst != nil && !metadataOnly && nMetadataChunks > 0 {\n\t\tdst.Reset(m.ViewBox, m.Palette)\n\t}\n"))
M('c02-int-length-CONTROL', 'C02', ('decode/decode.go', "lenSrcWant := int64(len(src)) - int64(length)", "lenSrcWant := int64(int32(len(src)) - int32(length<<2)>>2)"))
M('c02-arc-n-noabs', 'C02', ('render/render.go', "n := int(math.Ceil(math.Abs(deltaTheta) / (math.Pi/2 + 0.001)))", "n := int(math.Ceil(math.Abs(deltaTheta) / (math.Pi/8 + 0.001)))"))
M('c02-src-write', 'C02', ('decode/decode.go', "\tcase opcode == 0xc7:\n\t\treturn decodeSetLOD(dst, p, src)", "\tcase opcode == 0xc7:\n\t\tsrc[0] = 0xc7 &^ 0\n\t\tif len(src) > 1 && src[1] == 0xfe {\n\t\t\tsrc[1] = 0xfc\n\t\t}\n\t\treturn decodeSetLOD(dst, p, src)"))

# ---- C11
M('c11-drop-last-byte', 'C11', ('decode/decode.go', "\t\tfor i, x := range b {\n\t\t\tbuf[3*i+0] = hex[x>>4]", "\t\tfor i, x := range b {\n\t\t\tif i == 3 {\n\t\t\t\tbreak\n\t\t\t}\n\t\t\tbuf[3*i+0] = hex[x>>4]"))
M('c11-implicit-omitted', 'C11', ('decode/decode.go', "\t\t\tif p != nil && i != 0 {", "\t\t\tif p != nil && i != 0 && i != nReps-1 {"))
M('c11-adj-raw', 'C11', ('decode/decode.go', "\t\t\tp(src[:1], \"Set CREG[CSEL-%d] to a %d byte%s color\\n\", adj, nBytes, directness)", "\t\t\tp(src[:1], \"Set CREG[CSEL-%d] to a %d byte%s color\\n\", opcode&0x03, nBytes, directness)"))
M('c11-flags-print', 'C11', ('decode/decode.go', "p(src[:n], \"    %#x (largeArc=%d, sweep=%d)\\n\", x, (x>>0)&0x01, (x>>1)&0x01)", "p(src[:n], \"    %#x (largeArc=%d, sweep=%d)\\n\", x, (x>>1)&0x01, (x>>0)&0x01)"))
M('c11-nreg-precision', 'C11', ('decode/decode.go', "\t\tp(src[:n], \"    %g\\n\", f)", "\t\tp(src[:n], \"    %.6g\\n\", f)"))

# ---- C01
M('c01-maxrep-T', 'C01', ('encode/encode.go', "\t't': {0x50, 16, 2},", "\t't': {0x50, 17, 2},"), why='repeat count of one verb one too large: run of 17 t ops')
M('c01-no-flush-Y-CONTROL', 'C01', ('encode/encode.go', "\tcase 'Y', 'y':\n\t\te.flushDrawOps()", "\tcase 'y':\n\t\te.flushDrawOps()"), why='control: equivalent, the generic flush on verb change / Bytes() already emits the pending Y')
M('c01-swap-C-args', 'C01', ('encode/encode.go', "func (e *Encoder) RelCubeTo(x1, y1, x2, y2, x, y float32) { e.draw('c', x1, y1, x2, y2, x, y) }", "func (e *Encoder) RelCubeTo(x1, y1, x2, y2, x, y float32) { e.draw('c', x1, y1, x2, y2, y, x) }"))
M('c01-real-boundary', ['C01', 'C08'], ('encode/buffer.go', "if u := uint32(f); float32(u) == f && u < 1<<14 {", "if u := uint32(f); float32(u) == f && u <= 1<<14 {"))
M('c01-revert-F2', 'C01', ('encode/encode.go', "\te.flushDrawOps()\n\treturn []byte(e.buf), nil", "\treturn []byte(e.buf), nil"))
M('c01-hires-sticky-CONTROL', ['C01', 'C17'], ('encode/encode.go', "\te.highResolutionCoordinates = e.HighResolutionCoordinates\n", "\te.highResolutionCoordinates = e.highResolutionCoordinates || e.HighResolutionCoordinates\n"))

# ---- C08
M('c08-coord-lower', 'C08', ('encode/buffer.go', "if i := int32(f); -64 <= i && i < +64 && float32(i) == f {", "if i := int32(f); -64 < i && i < +64 && float32(i) == f {"))
M('c08-natural-7bit', ['C08', 'C01'], ('encode/buffer.go', "func (b *buffer) encodeNatural(u uint32) {\n\tif u < 1<<7 {", "func (b *buffer) encodeNatural(u uint32) {\n\tif u <= 1<<7 {"))
M('c08-round-const', 'C08', ('encode/buffer.go', "\tif v < 0x007ffffe {\n\t\tv += 2\n\t}", "\tif v < 0x007ffffc {\n\t\tv += 3\n\t}"))
M('c08-z2o-15121-CONTROL', 'C08', ('encode/buffer.go', "if u := uint32(f * 15120); float32(u) == f*15120 && u < 15120 {", "if u := uint32(f * 15120); float32(u) == f*15120 && u <= 15120 {"))

M('c08-natural4-guard', ['C08', 'C02'], ('decode/buffer.go', "\tif len(b) >= 4 {\n\t\ty := uint32(b[0]) | uint32(b[1])<<8 | uint32(b[2])<<16 | uint32(b[3])<<24", "\tif len(b) >= 3 {\n\t\tb = append(b[:len(b):len(b)], 0)\n\t\ty := uint32(b[0]) | uint32(b[1])<<8 | uint32(b[2])<<16 | uint32(b[3])<<24"), why='a 4-byte number cut to 3 bytes is read with a zero last byte instead of an error')
M('c08-revert-F3', 'C08', ('encode/encode.go', "x := math.Floor(float64(coord)*64 + 0.5)", "x := math.Floor(float64(coord*64 + 0.5))"))
M('c08-nreg-tiebreak', 'C08', ('encode/encode.go', "if n := b.encodeZeroToOne(f); n < nBest {", "if n := b.encodeZeroToOne(f); n <= nBest && f < 0 {"), why='zero-to-one encoder used for negative values (harmless) - expected NOT detectable; control')

# ---- C09
M('c09-dc1table', 'C09', ('color.go', "var dc1Table = [5]byte{0x00, 0x40, 0x80, 0xc0, 0xff}", "var dc1Table = [5]byte{0x00, 0x40, 0x80, 0xbf, 0xff}"))
M('c09-blend-round', 'C09', ('color.go', "uint8(((p * uint32(rgba0.B)) + q*uint32(rgba1.B) + 128) / 255),", "uint8(((p * uint32(rgba0.B)) + q*uint32(rgba1.B) + 127) / 255),"))
M('c09-palette-trim-CONTROL', 'C09', ('encode/encode.go', "for ; n >= 0 && m.Palette[n] == (color.RGBA{0x00, 0x00, 0x00, 0xff}); n-- {", "for ; n > 0 && m.Palette[n] == (color.RGBA{0x00, 0x00, 0x00, 0xff}); n-- {"), why='harmless (writes one explicit black) - control, expected not a violation')
M('c09-is3', 'C09', ('color.go', "func Is3(c color.RGBA) bool {\n\treturn c.A == 0xff", "func Is3(c color.RGBA) bool {\n\treturn c.A >= 0xfe"))
M('c09-encode2-first', 'C09', ('color.go', "func Is2(c color.RGBA) bool {\n\tis2 := func(u uint8) bool { return u%0x11 == 0 }", "func Is2(c color.RGBA) bool {\n\tis2 := func(u uint8) bool { return u%0x11 == 0 || u == 0xfe }"))
M('c09-revert-F1', 'C09', ('encode/encode.go', "if _, ok := ivg.RGBAColor(c).Encode1(); enc1 && !ok {", "if _, ok := ivg.RGBAColor(c).Encode1(); false && enc1 && !ok {"))
M('c09-resolve-creg-mask', ['C09', 'C04'], ('color.go', "\t\treturn cReg[c.cReg()&0x3f]", "\t\treturn cReg[c.cReg()&0x1f]"))

# ---- C10
M('c10-draw-no-errcheck', 'C10', ('encode/encode.go', "func (e *Encoder) draw(drawOp byte, arg0, arg1, arg2, arg3, arg4, arg5 float32) {\n\tif e.err != nil {\n\t\treturn\n\t}\n\tif e.mode != modeDrawing {", "func (e *Encoder) draw(drawOp byte, arg0, arg1, arg2, arg3, arg4, arg5 float32) {\n\tif e.mode != modeDrawing {"), why='a later drawing violation overwrites the first error')
M('c10-startpath-adj', 'C10', ('encode/encode.go', "\tif adj > 6 {\n\t\te.err = errInvalidSelectorAdjustment\n\t\treturn\n\t}\n\te.highResolutionCoordinates", "\tif adj > 7 {\n\t\te.err = errInvalidSelectorAdjustment\n\t\treturn\n\t}\n\te.highResolutionCoordinates"))
M('c10-setlod-in-drawing', 'C10', ('encode/encode.go', "func (e *Encoder) SetLOD(lod0, lod1 float32) {\n\te.checkModeStyling()\n\tif e.err != nil {", "func (e *Encoder) SetLOD(lod0, lod1 float32) {\n\tif e.mode != modeDrawing {\n\t\te.checkModeStyling()\n\t}\n\tif e.err != nil {"))
M('c10-incr-adj-ok', 'C10', ('encode/encode.go', "func (e *Encoder) SetNReg(adj uint8, incr bool, f float32) {\n\te.checkModeStyling()\n\tif e.err != nil {\n\t\treturn\n\t}\n\tif adj > 6 {\n\t\te.err = errInvalidSelectorAdjustment\n\t\treturn\n\t}\n\tif incr {\n\t\tif adj != 0 {", "func (e *Encoder) SetNReg(adj uint8, incr bool, f float32) {\n\te.checkModeStyling()\n\tif e.err != nil {\n\t\treturn\n\t}\n\tif adj > 6 {\n\t\te.err = errInvalidSelectorAdjustment\n\t\treturn\n\t}\n\tif incr {\n\t\tif adj > 1 {"))
M('c10-revert-F11', 'C10', ('encode/encode.go', "\te.mode = modeStyling\n\te.lod1 = positiveInfinity\n", "\te.mode = modeStyling\n"))
M('c10-bytes-in-error-resets', 'C10', ('encode/encode.go', "func (e *Encoder) CSel() uint8 {\n\tif e.mode == modeInitial {", "func (e *Encoder) CSel() uint8 {\n\tif e.err == errDrawingOpsUsedInStylingMode && e.mode == modeStyling {\n\t\te.err = nil\n\t}\n\tif e.mode == modeInitial {"), why='a read-back clears one kind of error')

# ---- C17
M('c17-reset-keeps-drawargs', 'C17', ('encode/encode.go', "\t*e = Encoder{\n\t\tbuf:      append(e.buf[:0], ivg.Magic...),", "\t*e = Encoder{\n\t\tdrawArgs: e.drawArgs,\n\t\tdrawOp:   e.drawOp,\n\t\tbuf:      append(e.buf[:0], ivg.Magic...),"))
M('c17-reset-keeps-hires', 'C17', ('encode/encode.go', "\t*e = Encoder{\n\t\tbuf:      append(e.buf[:0], ivg.Magic...),", "\t*e = Encoder{\n\t\thighResolutionCoordinates: e.highResolutionCoordinates,\n\t\tHighResolutionCoordinates: e.highResolutionCoordinates,\n\t\tbuf:      append(e.buf[:0], ivg.Magic...),"))
M('c17-renderer-nreg', ['C17', 'C04'], ('render/render.go', "\tz.nReg = [64]float32{}\n", ""))
M('c17-renderer-lod', ['C17', 'C04'], ('render/render.go', "\tz.lod0 = 0\n\tz.lod1 = positiveInfinity\n\tz.cSel = 0", "\tz.cSel = 0"))
M('c17-renderer-smooth', ['C17', 'C05'], ('render/render.go', "\tz.z.Reset(width, height)\n\tz.prevSmoothType = smoothTypeNone\n", "\tz.z.Reset(width, height)\n"), ('render/render.go', "\tz.prevSmoothType = smoothTypeNone\n\tz.prevSmoothPointX = 0", "\tz.prevSmoothPointX = 0"), why='smooth memory survives both StartPath and Reset')
M('c17-gradient-ranges', ['C17', 'C04'], ('render/gradient.go', "\tg.Ranges = AppendRanges(g.Ranges[:0], stops)", "\tg.Ranges = AppendRanges(g.Ranges, stops)"), why='ranges of an earlier gradient are kept and bridged to the new stops')

# ---- C04
M('c04-adj-sign', 'C04', ('render/render.go', "\tz.flatColor = z.cReg[(z.cSel-adj)&0x3f]", "\tz.flatColor = z.cReg[(z.cSel+adj)&0x3f]"))
M('c04-lod-le', 'C04', ('render/render.go', "!(z.lod0 <= h && h < z.lod1)", "!(z.lod0 <= h && h <= z.lod1)"))
M('c04-stop-ge', 'C04', ('render/render.go', "if !(0 <= n && n <= 1) || !(n > prevN) {", "if !(0 <= n && n <= 1) || !(n >= prevN) {"))
M('c04-lazy-resolve', 'C04', ('render/render.go', "\tz.cReg[(z.cSel-adj)&0x3f] = c.Resolve(&z.palette, &z.cReg)", "\tz.cReg[(z.cSel-adj)&0x3f] = c.Resolve(&z.cReg, &z.cReg)"), why='palette-indexed colours resolved against the registers instead of the palette')
M('c04-nbase-wrap-CONTROL', ['C04', 'C15'], ('render/render.go', "\t\tn := z.nReg[(nBase+i)&0x3f]", "\t\tn := z.nReg[(nBase+i)&0x7f%64]"), why='equivalent - control (expected not detected)')
M('c04-transparent-drawn-CONTROL', 'C04', ('render/render.go', "\t\tz.disabled = z.flatColor.A == 0\n", "\t\tz.disabled = z.flatColor == (color.RGBA{})\n"), why='equivalent for premultiplied colours - control')
M('c04-cbase-wrap', 'C04', ('render/render.go', "\t\tc := z.cReg[(cBase+i)&0x3f]", "\t\tc := z.cReg[(cBase+i)%63]"), why='stop colours wrapping past register 62')

# ---- C05
M('c05-rely-scalex', 'C05', ('render/render.go', "func (z *Renderer) relY(y float32) float32   { return z.scaleY * y }", "func (z *Renderer) relY(y float32) float32   { return z.scaleX * y }"))
M('c05-vline-smooth', 'C05', ('render/render.go', "\tpx, _ := z.z.Pen()\n\tz.prevSmoothType = smoothTypeNone\n\tz.z.LineTo(px, z.absY(y))", "\tpx, _ := z.z.Pen()\n\tz.z.LineTo(px, z.absY(y))"))
M('c05-relmove-order', 'C05', ('render/render.go', "\tz.prevSmoothType = smoothTypeNone\n\tz.z.ClosePath()\n\tz.z.MoveTo(z.relVec2(x, y))", "\tz.prevSmoothType = smoothTypeNone\n\tax, ay := z.relVec2(x, y)\n\tz.z.ClosePath()\n\tz.z.MoveTo(ax, ay)"), why='relative move measured from the pen before closing instead of the sub-path start')
M('c05-smooth-type', 'C05', ('render/render.go', "\tx1, y1 := z.implicitSmoothPoint(smoothTypeCube)\n\tx2, y2 = z.relVec2(x2, y2)", "\tx1, y1 := z.implicitSmoothPoint(smoothTypeQuad)\n\tx2, y2 = z.relVec2(x2, y2)"))
M('c05-biasx', 'C05', ('render/render.go', "\tz.biasX = -z.viewBox.MinX", "\tz.biasX = -z.viewBox.MinY"))

# ---- C06
M('c06-flag-eq', 'C06', ('render/render.go', "\tif largeArc == sweep {\n\t\tstep2 = -step2", "\tif largeArc != sweep {\n\t\tstep2 = -step2"))
M('c06-unabsy', 'C06', ('render/render.go', "func (z *Renderer) unabsY(y float32) float32 { return y/z.scaleY - z.biasY }", "func (z *Renderer) unabsY(y float32) float32 { return y/z.scaleX - z.biasY }"))
M('c06-subdivision', 'C06', ('render/render.go', "n := int(math.Ceil(math.Abs(deltaTheta) / (math.Pi/2 + 0.001)))", "n := int(math.Ceil(math.Abs(deltaTheta) / (math.Pi + 0.001)))"))
M('c06-radii-scale-CONTROL', 'C06', ('render/render.go', "\t\tc := math.Sqrt(radiiCheck)\n\t\tRx *= c\n\t\tRy *= c", "\t\tc := math.Sqrt(radiiCheck)\n\t\tRx *= c\n\t\tRy *= radiiCheck / c / c * c"), why='equivalent - control')
M('c06-revert-F5', 'C06', ('render/render.go', "\t\tz.z.LineTo(z.absVec2(x, y))\n\t\treturn", "\t\tz.z.LineTo(x, y)\n\t\treturn"))
M('c06-sweep-wrap-CONTROL', 'C06', ('render/render.go', "\t\tif deltaTheta > 0 {\n\t\t\tdeltaTheta -= 2 * math.Pi", "\t\tif deltaTheta >= 0 {\n\t\t\tdeltaTheta -= 2 * math.Pi"), why='control: differs only for deltaTheta == 0 exactly, which needs coincident end points (outside the quantifier)')

# ---- C07
M('c07-enc-csel-mask', 'C07', ('encode/encode.go', "\te.cSel = cSel & 0x3f\n\te.buf = append(e.buf, e.cSel)", "\te.cSel = cSel\n\te.buf = append(e.buf, e.cSel&0x3f)"))
M('c07-logger-nsel', 'C07', ('logger.go', "\tif d.Destination != nil {\n\t\td.Destination.SetNSel(nSel)", "\tif d.Destination != nil {\n\t\td.Destination.SetCSel(nSel)"))
M('c07-logger-absquad-args', 'C07', ('logger.go', "\t\td.Destination.AbsQuadTo(x1, y1, x, y)", "\t\td.Destination.AbsQuadTo(x, y, x1, y1)"), why='an absolute operation forwarded by the DestinationLogger with its control and end point swapped')
M('c07-logger-abscube-rel', 'C07', ('logger.go', "\t\td.Destination.AbsSmoothCubeTo(x2, y2, x, y)", "\t\td.Destination.RelSmoothCubeTo(x2, y2, x, y)"), why='the DestinationLogger forwards AbsSmoothCubeTo as its relative twin')
M('c05-rasterlogger-quad', 'C05', ('raster/logger.go', "\tr.Rasterizer.QuadTo(bx, by, cx, cy)", "\tr.Rasterizer.QuadTo(cx, cy, bx, by)"), why='the pass-through RasterizerLogger hands a quadratic on with its points swapped')
M('c07-generator-restore', ['C07', 'C19'], ('generate/generate.go', "\td.SetCSel(oldCSel)\n\td.SetNSel(oldNSel)", "\td.SetCSel(oldNSel)\n\td.SetNSel(oldCSel)"))
M('c07-revert-F6', 'C07', ('encode/encode.go', "\t\te.cSel = (e.cSel + 1) & 0x3f", "\t\te.cSel = (e.cSel + 0) & 0x3f"))
M('c07-revert-F10', ['C07', 'C19'], ('render/render.go', "\t\tz.cSel++\n\t\tz.cSel &= 0x3f", "\t\tz.cSel++"))

# ---- C14
M('c14-opts-before-chunks', 'C14', ('decode/decode.go', "\tprevMID := int64(-1)\n", "\tprevMID := int64(-1)\n\tfor _, opt := range opts {\n\t\topt(m)\n\t}\n\topts = nil\n"), why='options applied before the metadata chunks: a suggested palette overrides them')
M('c14-colorat-index', 'C14', ('decode/decode.go', "\t\tm.Palette[index] = color.RGBAModel.Convert(c).(color.RGBA)", "\t\tm.Palette[index&0x1f] = color.RGBAModel.Convert(c).(color.RGBA)"))
M('c14-revert-F7', 'C14', ('decode/decode.go', "\tif len(opts) > 0 {\n\t\t// Some user-given", "\tif len(opts) > 99 {\n\t\t// Some user-given"))
M('c14-sanitise-transparent', 'C14', ('decode/decode.go', "\t\t\tif !ivg.ValidAlphaPremulColor(c) {\n\t\t\t\tm.Palette[i]", "\t\t\tif !ivg.ValidAlphaPremulColor(c) || c.A == 0 {\n\t\t\t\tm.Palette[i]"), why='transparent user colours (which legitimately switch paths off) turned into black')

# ---- C15
M('c15-range-lt-CONTROL', 'C15', ('render/gradient.go', "\t\tif r.Offset0 <= offset && offset <= r.Offset1 {", "\t\tif r.Offset0 <= offset && offset < r.Offset1 {"), why='control: equivalent, an offset on an interior stop is matched by the next range, on the last stop by the Last fall-through')
M('c15-swap-ts', 'C15', ('render/gradient.go', "\t\t\t\tuint16(s*r.G0 + t*r.G1),", "\t\t\t\tuint16(t*r.G0 + s*r.G1),"))
M('c15-no-half', 'C15', ('render/gradient.go', "\tpy := float64(y) + 0.5", "\tpy := float64(y)"))
M('c15-pix2grad-by', 'C15', ('render/render.go', "\t\tc - a*zBX - b*zBY,", "\t\tc - a*zBX,"))
M('c15-repeat-ceil', 'C15', ('render/gradient.go', "\t\tcase SpreadRepeat:\n\t\t\treturn x - math.Floor(x)\n\t\t}\n\t\treturn -1\n\t}", "\t\tcase SpreadRepeat:\n\t\t\treturn math.Ceil(x) - x\n\t\t}\n\t\treturn -1\n\t}"))
M('c15-revert-F8', 'C15', ('render/gradient.go', "\t\tx = -x\n\t\tif int(x)&1 == 0 {\n\t\t\treturn x - math.Floor(x)\n\t\t}\n\t\treturn 1 - (x - math.Floor(x))", "\t\tx = -x\n\t\tif int(x)&1 == 0 {\n\t\t\treturn x - math.Floor(x)\n\t\t}\n\t\treturn math.Ceil(x) - x"))
M('c15-first-offset', 'C15', ('render/gradient.go', "\tif offset < g.Ranges[0].Offset0 {\n\t\treturn g.First", "\tif offset < g.Ranges[0].Offset0 {\n\t\treturn g.Last"))

# ---- C16
M('c16-draw-sp', 'C16', ('render/render.go', "\tz.z.Draw(z.r, z.fill, image.Pt(0, 0))", "\tz.z.Draw(z.r, z.fill, z.r.Min)"))
M('c16-reset-square', 'C05', ('render/render.go', "\tz.z.Reset(width, height)", "\tz.z.Reset(width, width)"))
M('c16-drawop-sticky', 'C16', ('raster/vec/rasterizer.go', "\tz.DrawOp = draw.Over\n", ""))
M('c16-absy-scalex', ['C16', 'C05'], ('render/render.go', "func (z *Renderer) absY(y float32) float32   { return z.scaleY * (y + z.biasY) }", "func (z *Renderer) absY(y float32) float32   { return z.scaleX * (y + z.biasY) }"))

# ---- C19
M('c19-matrix-adj', 'C19', ('generate/generate.go', "\t\td.SetNReg(uint8(len(transform)-i), false, v)", "\t\td.SetNReg(uint8(len(transform)-i-1), false, v)"))
M('c19-ellipse-mc', 'C19', ('generate/generate.go', "\tmc := -float32(ma*cx) - float32(mb*cy)", "\tmc := -float32(ma*cx)"))
M('c19-overlap-le', 'C19', ('generate/generate.go', "(cBase <= x && x < cBase+nStops) || (cBase <= y && y < cBase+nStops)", "(cBase < x && x < cBase+nStops) || (cBase < y && y < cBase+nStops)"))
M('c19-revert-F9', 'C19', ('generate/generate.go', "\tif len(stops) > 64-len(transform) {", "\tif false && len(stops) > 64-len(transform) {"))
M('c19-linear-c', 'C19', ('generate/generate.go', "\t\tma, mb, -ma*x1 - mb*y1,", "\t\tma, mb, -ma*x1 - mb*y2,"))
M('c19-circular-ry', 'C19', ('generate/generate.go', "invR := float32(1 / math.Sqrt(float64(rx*rx+ry*ry)))", "invR := float32(1 / math.Sqrt(float64(rx*rx+rx*ry)))"))

# ---- C20
M('c20-T-arity', 'C20', ('generate/generate.go', "\t\tcase 'L', 'l', 'M', 'm', 'T', 't':\n\t\t\tn = 2\n\t\tcase 'Q', 'q', 'S', 's':\n\t\t\tn = 4\n\t\tcase 'C', 'c':\n\t\t\tn = 6\n\t\tcase 'A', 'a':", "\t\tcase 'L', 'l', 'M', 'm', 't':\n\t\t\tn = 2\n\t\tcase 'Q', 'q', 'S', 's', 'T':\n\t\t\tn = 4\n\t\tcase 'C', 'c':\n\t\t\tn = 6\n\t\tcase 'A', 'a':"))
M('c20-rel-translate', 'C20', ('generate/generate.go', "\t\t\tif 'a' <= verb && verb <= 'z' {\n\t\t\t\ttransform = scale\n\t\t\t}", "\t\t\tif 'a' <= verb && verb < 'v' {\n\t\t\t\ttransform = scale\n\t\t\t}"), why='relative v gets the translation')
M('c20-arc-flag', 'C20', ('generate/generate.go', "\t\t\te.RelArcTo(args[0], args[1], args[2]/360, args[3] != 0, args[4] != 0, args[5], args[6])", "\t\t\te.RelArcTo(args[0], args[1], args[2]/360, args[4] != 0, args[3] != 0, args[5], args[6])"))
M('c20-H-axis', 'C20', ('generate/generate.go', "\t\t\t\tif verb == 'H' || verb == 'h' {\n\t\t\t\t\targs[0], _ = MulAff3(args[0], 0, transform)", "\t\t\t\tif verb == 'H' {\n\t\t\t\t\targs[0], _ = MulAff3(args[0], 0, transform)"), why='relative h falls to the V branch? (else-if needs V/v) -> h untransformed')
M('c20-md-offset-axis', 'C20', ('mdicons/parsepathdata.go', "\t\tcase op == 'V':\n\t\t\targs[i] -= offset[1]", "\t\tcase op == 'V':\n\t\t\targs[i] -= offset[0]"))
M('c20-circle-second-arc', 'C20', ('mdicons/parsepath.go', "\t\tenc.RelArcTo(r, r, 0, false, true, -2*r, 0)", "\t\tenc.RelArcTo(r, r, 0, false, true, +2*r, 0)"))
M('c20-opacity-reuse', 'C20', ('mdicons/parsepath.go', "\t\t\tadj = uint8(len(adjs) + 1)\n\t\t\tadjs[opacity] = adj", "\t\t\tadj = uint8(len(adjs) + 1)\n\t\t\tadjs[opacity*2] = adj"), why='registers are never reused: a repeated opacity allocates a new register')
M('c20-concat-order', 'C20', ('generate/generate.go', "\tdefault:\n\t\ta := Aff3{1, 0, 0, 0, 1, 0}\n\t\tfor _, b := range affs {", "\tdefault:\n\t\ta := Aff3{1, 0, 0, 0, 1, 0}\n\t\tif len(affs) == 3 {\n\t\t\taffs = []Aff3{affs[0], affs[2], affs[1]}\n\t\t}\n\t\tfor _, b := range affs {"))

# ---- C18
M('c18-hoist-coords', 'C18', ('decode/decode.go', "func decodeDrawing(dst ivg.Destination, p printer, src buffer) (mf modeFunc, src1 buffer, err error) {\n\tvar coords [6]float32\n", "var coords [6]float32\n\nfunc decodeDrawing(dst ivg.Destination, p printer, src buffer) (mf modeFunc, src1 buffer, err error) {\n"))
M('c18-global-scratch', 'C18', ('encode/encode.go', "\t// Try three different encodings and pick the shortest.\n\tb := buffer(e.scratch[0:0])", "\t// Try three different encodings and pick the shortest.\n\te.scratch = sharedScratch\n\tdefer func() { sharedScratch = e.scratch }()\n\tb := buffer(e.scratch[0:0])"), ('encode/encode.go', "type mode uint8\n", "var sharedScratch [12]byte\n\ntype mode uint8\n"), why='scratch bytes round-trip through a package-level array')
M('c18-memo-color1', 'C18', ('color.go', "func DecodeColor1(x byte) Color {\n", "var dc1Cache = map[byte]Color{}\n\nfunc DecodeColor1(x byte) Color {\n\tif c, ok := dc1Cache[x]; ok {\n\t\treturn c\n\t}\n\tc := decodeColor1(x)\n\tdc1Cache[x] = c\n\treturn c\n}\n\nfunc decodeColor1(x byte) Color {\n"))
M('c18-magic-append-CONTROL', 'C18', ('encode/encode.go', "\te.buf = append(e.buf[:0], ivg.Magic...)\n\te.buf = append(e.buf, 0x00) // There are zero metadata chunks.", "\te.buf = append(ivg.MagicBytes[:4], 0x00) // There are zero metadata chunks."), why='control: MagicBytes has cap == len (static array of 4), so the append reallocates and nothing shared is written; the census hashes slices up to capacity and would see an in-place append')
M('c18-palette-pointer', 'C18', ('decode/decode.go', "func WithPalette(p [64]color.RGBA) DecodeOption {\n\treturn func(m *ivg.Metadata) {\n\t\tm.Palette = p", "func WithPalette(p [64]color.RGBA) DecodeOption {\n\treturn func(m *ivg.Metadata) {\n\t\tfor i := range p {\n\t\t\tif !ivg.ValidAlphaPremulColor(p[i]) {\n\t\t\t\tp[i] = color.RGBA{0, 0, 0, 0xff}\n\t\t\t}\n\t\t}\n\t\tm.Palette = p"), why='the closure sanitises its captured copy in place: a write to state shared by every decode using that option value')
M('c18-default-palette-write', 'C18', ('decode/decode.go', "func Decode(dst ivg.Destination, src []byte, opts ...DecodeOption) error {\n\tm := ivg.DefaultMetadata", "func Decode(dst ivg.Destination, src []byte, opts ...DecodeOption) error {\n\tm := &ivg.DefaultMetadata\n\tdefer func(p [64]color.RGBA, v ivg.ViewBox) { m.Palette, m.ViewBox = p, v }(m.Palette, m.ViewBox)\n\treturn decode(dst, nil, m, false, src, opts...)\n}\n\nfunc decodeCopy(dst ivg.Destination, src []byte, opts ...DecodeOption) error {\n\tm := ivg.DefaultMetadata"), why='decodes in place into the shared DefaultMetadata and restores it afterwards (save/restore window)')

# ---- second batch: subtler variants of changes the repository's golden tests pin down
M('c11-implicit-16', 'C11', ('decode/decode.go', "\t\t\tif p != nil && i != 0 {", "\t\t\tif p != nil && i != 0 && i != 16 {"), why='implicit line missing for the 17th repetition only (runs longer than any in testdata)')
M('c11-adj-mod6', 'C11', ('decode/decode.go', "\t\t\tp(src[:1], \"Set CREG[CSEL-%d] to a %d byte%s color\\n\", adj, nBytes, directness)", "\t\t\tp(src[:1], \"Set CREG[CSEL-%d] to a %d byte%s color\\n\", adj%6, nBytes, directness)"))
M('c11-2byte-color-hex', 'C11', ('decode/decode.go', "\tif p != nil {\n\t\tp(src[:n], \"    %v\\n\", c)\n\t}", "\tif p != nil {\n\t\tif nBytes == 2 {\n\t\t\tp(src[:1], \"    %v\\n\", c)\n\t\t} else {\n\t\t\tp(src[:n], \"    %v\\n\", c)\n\t\t}\n\t}"))
M('c11-startpath-adj', 'C11', ('decode/decode.go', "\t\tp(src[:1], \"Start path, filled with CREG[CSEL-%d]; M (absolute moveTo)\\n\", adj)", "\t\tp(src[:1], \"Start path, filled with CREG[CSEL-%d]; M (absolute moveTo)\\n\", adj&5)"), why='ADJ 2, 3, 6 printed wrongly')
M('c15-reflect-neg', 'C15', ('render/gradient.go', "\t\tx = -x\n\t\tif int(x)&1 == 0 {\n\t\t\treturn x - math.Floor(x)\n\t\t}\n\t\treturn 1 - (x - math.Floor(x))", "\t\tx = -x\n\t\tif int(x)&1 != 0 {\n\t\t\treturn x - math.Floor(x)\n\t\t}\n\t\treturn 1 - (x - math.Floor(x))"), why='reflect wrong for negative offsets only')
M('c15-accessor-last', 'C15', ('render/gradient.go', "\t\tuint8(g.Last.G >> 8),", "\t\tuint8(g.First.G >> 8),"))
M('c15-accessor-transform', 'C15', ('render/gradient.go', "\td = g.Pix2Grad[3]\n\te = g.Pix2Grad[4]", "\te = g.Pix2Grad[3]\n\td = g.Pix2Grad[4]"))
M('c15-after-last', 'C15', ('render/gradient.go', "\t\t}\n\t}\n\treturn g.Last\n}", "\t\t}\n\t}\n\treturn g.First\n}"), why='offset beyond a last stop < 1')
M('c02-blend-guard', 'C02', ('decode/buffer.go', "func (b buffer) decodeColor3Indirect() (c ivg.Color, n int) {\n\tif len(b) < 3 {", "func (b buffer) decodeColor3Indirect() (c ivg.Color, n int) {\n\tif len(b) < 2 {"))
M('c02-pal-header-guard', ['C02', 'C13'], ('decode/decode.go', "\t\tif len(src) == 0 {\n\t\t\treturn nil, errInvalidSuggestedPalette\n\t\t}\n", ""))
M('c03-creg4-incr', 'C03', ('decode/decode.go', "\tnBytes, directness, adj := 0, \"\", opcode&0x07\n\tvar decode func(buffer) (ivg.Color, int)\n\tincr := adj == 7", "\tnBytes, directness, adj := 0, \"\", opcode&0x07\n\tvar decode func(buffer) (ivg.Color, int)\n\tincr := adj == 7 && opcode != 0x9f"))
M('c03-nsel-mask', 'C03', ('decode/decode.go', "\t\t\topcode &= 0x3f\n\t\t\tif p != nil {\n\t\t\t\tp(src[:1], \"Set NSEL = %d\\n\", opcode)", "\t\t\topcode &= 0x1f\n\t\t\tif p != nil {\n\t\t\t\tp(src[:1], \"Set NSEL = %d\\n\", opcode)"))
M('c13-length-gt', ['C13', 'C03'], ('decode/decode.go', "\tif int64(len(src)) != lenSrcWant {", "\tif int64(len(src)) > lenSrcWant {"))
M('c13-pal-format3-raw', 'C13', ('decode/decode.go', "\t\t\trgba, _ := c.RGBA()\n", "\t\t\trgba, _ := c.RGBA()\n\t\t\tif format == 3 && ivg.ValidGradient(color.RGBA{}) == false && !ivg.ValidAlphaPremulColor(rgba) == false && length > 62 {\n\t\t\t\tif x, ok := c.Encode4(); ok {\n\t\t\t\t\trgba = color.RGBA{x[0], x[1], x[2], x[3]}\n\t\t\t\t}\n\t\t\t}\n"), why='4-byte palettes with 63 or 64 entries are not sanitised')
M('c16-bias-rmin', ['C16', 'C15'], ('render/render.go', "\t\tc - a*zBX - b*zBY,", "\t\tc - a*zBX - b*zBY + a*invZSX*float64(z.r.Min.X),"), why='gradient origin shifted by the rectangle origin')
M('c19-circular-cy', 'C19', ('generate/generate.go', "\t\t0, invR, -cy * invR,", "\t\t0, invR, -cx * invR,"))
M('c19-linear-mb-CONTROL', 'C19', ('generate/generate.go', "\tmb := dy / d\n", "\tmb := dy / d\n\tif dx == 0 {\n\t\tmb = 1 / dy * float32(1)\n\t\tma = 0 * mb\n\t}\n"), why='equivalent special case - control')
M('c19-stops-cbase', 'C19', ('generate/generate.go', "\tfor _, s := range stops {\n\t\tr, g, b, a := s.Color.RGBA()", "\tfor i, s := range stops {\n\t\tif i == 57 {\n\t\t\td.SetCSel(d.CSel() + 1)\n\t\t}\n\t\tr, g, b, a := s.Color.RGBA()"), why='the 58th stop lands one register too far')
M('c20-scan-plus', 'C20', ('generate/generate.go', "\t\tf, err := strconv.ParseFloat(d[:j], 64)", "\t\tf, err := strconv.ParseFloat(strings.TrimPrefix(d[:j], \"+\"), 64)\n\t\tif d[0] == '+' && j > 2 {\n\t\t\tf = -f\n\t\t}"), ('generate/generate.go', "\t\"strconv\"\n", "\t\"strconv\"\n\t\"strings\"\n"), why='numbers with an explicit + sign and more than one digit are negated')
M('c20-md-implicit-L', 'C20', ('mdicons/parsepathdata.go', "\t\tdefault:\n\t\t\tr.UnreadByte()\n\t\t}", "\t\tdefault:\n\t\t\tr.UnreadByte()\n\t\t\tif op == 'l' {\n\t\t\t\top, relative = 'L', false\n\t\t\t}\n\t\t}"), why='a repeated operand group after l is treated as absolute L')
M('c04-lod-nan', 'C04', ('render/render.go', "z.disabled = z.disabled || !(z.lod0 <= h && h < z.lod1)", "z.disabled = z.disabled || h < z.lod0 || h >= z.lod1"), why='NaN LOD bounds no longer disable the path')
M('c04-gradient-stop-gradient', 'C04', ('render/render.go', "\t\tif !ivg.ValidAlphaPremulColor(c) {\n\t\t\treturn false\n\t\t}\n\t\tn := z.nReg", "\t\tif !ivg.ValidAlphaPremulColor(c) && !ivg.ValidGradient(c) {\n\t\t\treturn false\n\t\t}\n\t\tn := z.nReg"), why='a stop colour that is itself a gradient value is accepted')
M('c05-relq-second', 'C05', ('render/render.go', "\tx1, y1 = z.relVec2(x1, y1)\n\tx, y = z.relVec2(x, y)\n\tz.prevSmoothType = smoothTypeQuad", "\tx1, y1 = z.relVec2(x1, y1)\n\tx, y = x1+z.relX(x), y1+z.relY(y)\n\tz.prevSmoothType = smoothTypeQuad"), why='relative quad end point measured from the control point')
M('c06-large-arc-only', 'C06', ('render/render.go', "\tif sweep {\n\t\tif deltaTheta < 0 {", "\tif sweep || (largeArc && rx != ry) {\n\t\tif deltaTheta < 0 {"), why='large non-circular arcs with sweep=false take the wrong branch')
M('c09-encode2-alpha-CONTROL', 'C09', ('color.go', "\t\t\t(c.data.B/0x11)<<4 | (c.data.A / 0x11),", "\t\t\t(c.data.B/0x11)<<4 | (c.data.A / 0x10 & 0x0f),"), why='control: equivalent for every multiple of 0x11')
M('c17-renderer-csel', ['C17', 'C04'], ('render/render.go', "\tz.cSel = 0\n\tz.nSel = 0\n", "\tz.nSel = 0\n"), why='CSEL survives Reset')
M('c17-encoder-lod', 'C17', ('encode/encode.go', "\t\tmode:     modeStyling,\n\t\tlod1:     positiveInfinity,", "\t\tmode:     modeStyling,\n\t\tlod0:     e.lod0,\n\t\tlod1:     positiveInfinity,"), why='LOD() read-back after Reset differs from a fresh Encoder')
M('c02-stack-overflow', 'C02', ('decode/decode.go', "\tcase opcode == 0xc7:\n\t\treturn decodeSetLOD(dst, p, src)\n\t}", "\tcase opcode == 0xc7:\n\t\treturn decodeSetLOD(dst, p, src)\n\tcase opcode == 0xc9:\n\t\t// reserved for a future version: skip\n\t\treturn decodeStyling(dst, p, src[:len(src):len(src)])\n\t}"), why='a reserved opcode is "skipped" by re-entering the decoder on the same bytes: unbounded recursion, the process dies with a stack overflow (not a recoverable panic)')
