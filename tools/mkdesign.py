#!/usr/bin/env python3
"""Assembles /verif/DESIGN.md from doc/design_head.md, doc/design_body.md, doc/design_corrections.md and two generated
tables: section 6 (which check catches which change, from evidence/selftest.json and seeded/*/meta.json) and the cost
table of section 8 (from evidence/*.json)."""
import json, os, glob
R = os.path.dirname(os.path.dirname(os.path.abspath(__file__)))
head = open(f"{R}/doc/design_head.md").read()
body = open(f"{R}/doc/design_body.md").read()
corr = open(f"{R}/doc/design_corrections.md").read()
st = {}
p = f"{R}/evidence/selftest.json"
if os.path.exists(p):
    st = {x['id']: x for x in json.load(open(p))['results']}
sys_path = os.path.join(R, 'tools')
import sys; sys.path.insert(0, sys_path)
from mutant_table import MUTANTS
why = {m['id']: m.get('why', '') for m in MUTANTS}
def first(r):
    out = []
    for pid, c in (r.get('checks') or {}).items():
        k = c.get('first', '')
        if k.startswith('key='):
            k = k[4:].split(' count=')[0]
        else:
            k = ''
        out.append(f"{pid}: {'VIOLATION `' + k + '`' if c.get('exit') == 1 else 'exit %s' % c.get('exit')}")
    return '; '.join(out)
lines = ["## 6. Detection: which check catches which change",
 "",
 "`tools/mutants.py` (2.8) applies each change to a scratch copy of `/repo`, requires the repository's own 30 tests to",
 "still pass (otherwise the change is *unrealistic* and not listed here), and runs the quick check of the tagged",
 "property. Two sources: **own** = `tools/mutant_table.py` (the cut-list of the first plan, the reverted `fix:` commits,",
 "and a few deliberately *equivalent* changes as controls that must NOT be reported); **seeded** = the changes under `/verif/seeded/` (ten rounds, 371 kept) written by",
 "independent sub-agents that were given only the text of one property and a scratch worktree (two per property and round; each",
 "confirmed here: patch applies, suite passes, its own demonstration test fails with the change and passes without;",
 "kept under `/verif/seeded/<id>/`).",
 ""]
seeded = sorted(k for k in st if k.startswith('seeded/'))
own = sorted(k for k in st if not k.startswith('seeded/'))
def table(ids, title, withneeds):
    rows = [f"**{title}**", "", "| change | property | outcome | needs / what it is |", "|---|---|---|---|"]
    for i in ids:
        r = st[i]
        if r['status'] in ('unrealistic', 'not-applicable'):
            continue
        prop = r['property'] if isinstance(r['property'], str) else ', '.join(r['property'])
        needs = r.get('why') or why.get(i, '')
        if i.startswith('seeded/'):
            mp = f"{R}/{i}/meta.json"
            if os.path.exists(mp):
                needs = json.load(open(mp)).get('needs', needs)
        status = r['status']
        if status == 'MISSED' and ('control' in needs.lower() or 'equivalent' in needs.lower() or i.endswith('CONTROL')):
            status = 'not reported (control: the change does not break the property)'
        rows.append(f"| `{i}` | {prop} | {status}: {first(r)} | {needs} |")
    return rows
lines += table(seeded, f"Seeded by independent sub-agents ({len(seeded)} run)", True) + [""]
lines += table(own, "Own changes", False) + [""]
unreal = [i for i in own if st[i]['status'] == 'unrealistic']
lines += [f"Discarded as unrealistic (the repository's own tests fail under them, {len(unreal)}): " + ', '.join(f"`{i}`" for i in unreal) + ".", ""]
missed = [i for i in st if st[i]['status'] == 'MISSED']
lines += ["Changes not reported by the tagged check: " + (', '.join(f"`{i}`" for i in missed) if missed else "none") + ". Each is either a control (see the last column) or discussed in section 6.1.", ""]
extra = f"{R}/doc/design_detection_notes.md"
if os.path.exists(extra):
    lines += [open(extra).read()]
det = '\n'.join(lines)
cost = ["| property | level | quick: evaluations | states | transitions | distinct non-trivial | wall s | exhaustive |", "|---|---|---|---|---|---|---|---|"]
thor = {}
tp = f"{R}/doc/thorough_runs.json"
if os.path.exists(tp):
    thor = json.load(open(tp))
for f in sorted(glob.glob(f"{R}/evidence/C*.json")):
    e = json.load(open(f)); c = e['coverage']
    cost.append(f"| {e['property_id']} | {e['level']} | {c['evaluations']:,} | {c.get('states', '')} | {c.get('transitions', '')} | {c['distinct_nontrivial']:,} | {e['wall_s']:.1f} | {c['exhaustive']} |")
cost += ["", "(Last committed run of each check; tier shown in the evidence file.)"]
if thor:
    cost += ["", "Thorough tier, measured once on this machine (16 cores):", "", "| property | evaluations | wall s | exhaustive | note |", "|---|---|---|---|---|"]
    for k in sorted(thor):
        t = thor[k]
        cost.append(f"| {k} | {t['evaluations']:,} | {t['wall_s']:.0f} | {t['exhaustive']} | {t.get('note', '')} |")
body = body.replace('DETECTION_PLACEHOLDER', det).replace('SEC7_PLACEHOLDER', corr.rstrip() + '\n').replace('COST_PLACEHOLDER', '\n'.join(cost))
open(f"{R}/DESIGN.md", 'w').write(head + body)
print('DESIGN.md written', len(head + body))
