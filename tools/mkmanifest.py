#!/usr/bin/env python3
"""Regenerates /verif/MANIFEST.json from the table below (one entry per built check)."""
import json, os
ROOT = os.path.dirname(os.path.dirname(os.path.abspath(__file__)))
props = [json.loads(l) for l in open(os.path.join(ROOT, 'properties.jsonl'))]
M = {}
def add(i, cat, text, ref, note, tech):
    M[i] = dict(cat=cat, text=text, ref=ref, note=note, tech=tech)

add('C12', 'exploration',
    'Complete Cartesian product of viewBox sizes and target sizes (28 values = 7 binades x 4 mantissas; thorough 60 values over 2^-20..2^20), 3 viewBox origins (MinX != MinY) and 25 alignment pairs (0, 0.25, 0.3, 0.5, 1 per axis) for AspectMeet and AspectSlice, plus two extreme families (all dimensions ~2^64 resp. ~2^-80, where products of two dimensions overflow resp. underflow float32), each compared with an exact rational/float64 reference fit plus the structural clauses of the statement (aspect, inside/covering, equal in one dimension, alignment, Size).',
    'DESIGN.md 3/C12', 'float32 arithmetic on linux/amd64; tolerance 2^-18 relative to the target side or result extent per axis',
    'exhaustive product enumeration of a pure function against an exact reference')
add('C03', 'exploration',
    'Every decoder input of the bounded byte grammar (all strings of <=3 bytes after the magic, thorough <=4 = all 2^32 tails; every opcode x operand-width combination x payload class x repeat count x truncation point; all 16384 two-byte payloads per number kind and for the arc angle; all instruction sequences to depth 3/4 over a 30-fragment alphabet; the metadata shape space; every prefix and every single-byte substitution of all 971 corpus files: 50 M strings quick, 4.4 G thorough) is decoded by the real decoder and by an independent reference parser written from the specification; accept/reject and the delivered call list must agree bit for bit. After every other input a fixed small graphic is decoded and must deliver exactly the reference calls (nothing carried over between decodes); inputs are handed over in one buffer overwritten in place.',
    'DESIGN.md 2.1(B,F), 3/C03', 'trusted: the reference parser /verif/ref (written from spec/iconvg-spec-v0.md); error kinds are not compared',
    'exhaustive enumeration of the input grammar up to a depth, differential against a reference model')
execfile_extra = os.path.join(ROOT, 'tools', 'manifest_entries.py')
if os.path.exists(execfile_extra):
    exec(open(execfile_extra).read())

checks = []
for p in props:
    i = p['id']
    if i in M:
        m = M[i]
        checks.append(dict(property_id=i, quick_cmd=f'./check.sh {i} quick', thorough_cmd=f'./check.sh {i} thorough',
                           evidence_file=f'/verif/evidence/{i}.json', replay_cmd_template='./check.sh replay {path}', engine='ivgmc',
                           level_claimed=dict(category=m['cat'], text=m['text'], design_ref=m['ref']), level_note=m['note'], technique=m['tech']))
na = [dict(property_id=p['id'], reason='check not built yet (work in progress; DESIGN.md section 3 describes the planned exhaustive check)') for p in props if p['id'] not in M]
man = dict(version=1, setup_cmd='./setup.sh',
           hooks=dict(guard='verif (build tag carried only by generated overlay files; /repo holds no hook code)',
                      enable='go build -tags verif -overlay /verif/.bin/overlay.json (generated from the working tree by /verif/inst/overlay.sh on every run)',
                      baseline_off_cmd='cd /repo && GOFLAGS=-mod=mod go test -vet=off -count=1 ./...', source_commits=[], add_only=True),
           engines=[dict(name='ivgmc', path='/verif/cmd/ivgmc', serves_properties=sorted(M),
                         kind_free_text='hand-written explicit-state / bounded exhaustive explorer in Go, process-sharded (16 workers, GOMAXPROCS=1 each), run directly on the implementation and compared step by step with reference models written from the specification')],
           checks=checks, not_applicable=na,
           notes='All checks are deterministic enumerations; VERIF_SEED is recorded but no check draws random numbers. Fixes of genuine defects are fix: commits in /repo, listed in known_findings.json.')
json.dump(man, open(os.path.join(ROOT, 'MANIFEST.json'), 'w'), indent=1)
print('checks:', len(checks), 'not_applicable:', len(na))
