#!/bin/sh
# Runs the thorough tier of the given checks (default: all) one after the other and appends a
# one-line JSON summary per check to $SUMMARY (default /var/tmp/thorough_summary.jsonl).
cd "$(dirname "$0")/.." || exit 1
SUMMARY="${SUMMARY:-/var/tmp/thorough_summary.jsonl}"
LIST="${*:-C12 C13 C15 C19 C20 C16 C17 C14 C03 C06 C09 C10 C05 C04 C18 C11 C02 C01 C07 C08}"
for p in $LIST; do
	start=$(date +%s)
	./check.sh "$p" thorough > "/var/tmp/thorough-$p.log" 2>&1
	rc=$?
	end=$(date +%s)
	python3 - "$p" "$rc" "$((end-start))" >> "$SUMMARY" <<'PY'
import json,sys,os
p,rc,secs=sys.argv[1],int(sys.argv[2]),int(sys.argv[3])
root=os.environ.get('VERIF_ROOT', os.getcwd())
try:
    e=json.load(open(os.path.join(os.getcwd(),'evidence',p+'.json')))
    c=e['coverage']
    print(json.dumps(dict(property=p, rc=rc, wall_s=e['wall_s'], tier=e['tier'], evaluations=c['evaluations'], exhaustive=c['exhaustive'], caps=c.get('caps',[])[:3], states=c.get('states'), transitions=c.get('transitions'), distinct_nontrivial=c['distinct_nontrivial'])))
except Exception as ex:
    print(json.dumps(dict(property=p, rc=rc, wall_s=secs, error=str(ex))))
PY
done
