#!/usr/bin/env python3
"""Imports a change produced by an independent sub-agent (worktree /tmp/wt-Cxx/SEEDk) into /verif/seeded/<id>/ after
confirming, in a scratch copy of /repo, that (1) the patch applies and builds, (2) the repository's own tests still pass,
(3) the demonstration test fails with the change and passes without it.
usage: seed_import.py Cxx k [needs-text]"""
import sys, os, subprocess, shutil, json, re
ROOT = os.path.dirname(os.path.dirname(os.path.abspath(__file__)))
ENV = dict(os.environ, GOFLAGS='-mod=mod', GOPROXY='off', GOSUMDB='off', GOTOOLCHAIN='local')
def sh(cmd, cwd=None):
    p = subprocess.run(cmd, shell=True, cwd=cwd, env=ENV, stdout=subprocess.PIPE, stderr=subprocess.STDOUT)
    return p.returncode, p.stdout.decode(errors='replace')
prop, k = sys.argv[1], sys.argv[2]
src = os.environ.get('SEED_WT', f"/tmp/wt-{prop}") + f"/SEED{k}"
sid = os.environ.get('SEED_ID', f"{prop}-{k}")
scratch = f"/var/tmp/seedimp-{os.getpid()}"
shutil.rmtree(scratch, ignore_errors=True)
os.makedirs(scratch)
ran = []
try:
    sh(f"rsync -a --exclude .git /repo/ {scratch}/repo/")
    demo = open(f"{src}/demo_test.go").read()
    first = demo.splitlines()[0]
    m = re.search(r'(?:into|to|in)\s+(?:the\s+)?[`"\']?([\w/.-]+?)/?[`"\']?(?:\s|$|\)|,|;)', first)
    # find target dir: look for a known package dir name in the first line
    target = None
    for cand in ['cmd/mdicons/test', 'raster/vec', 'decode', 'encode', 'render', 'generate', 'mdicons', 'raster']:
        if re.search(r'\b' + re.escape(cand) + r'\b', first):
            target = cand; break
    if target is None:
        target = '' if re.search(r'root|module root|top', first) else None
    if target is None:
        pk = re.search(r'^package (\w+)_test', demo, re.M)
        target = {'ivg': ''}.get(pk.group(1), pk.group(1)) if pk else ''
    tdir = f"{scratch}/repo/{target}".rstrip('/')
    shutil.copy(f"{src}/demo_test.go", f"{tdir}/zz_seed_demo_test.go")
    pkg = './' + target if target else '.'
    rc0, out0 = sh(f"go test -vet=off -count=1 {pkg}", cwd=f"{scratch}/repo"); ran.append(f"clean tree: go test {pkg} (with demo) -> rc {rc0}")
    rc, out = sh(f"git apply --check {src}/patch.diff 2>&1 || true; patch -p1 -s < {src}/patch.diff", cwd=f"{scratch}/repo")
    if rc != 0:
        print("PATCH DOES NOT APPLY", out); sys.exit(1)
    rc1, out1 = sh(f"go build ./... && go test -vet=off -count=1 {pkg}", cwd=f"{scratch}/repo"); ran.append(f"patched tree: go test {pkg} (with demo) -> rc {rc1}")
    os.remove(f"{tdir}/zz_seed_demo_test.go")
    rc2, out2 = sh("go build ./... && go test -vet=off -count=1 ./...", cwd=f"{scratch}/repo"); ran.append(f"patched tree: repository test suite (without demo) -> rc {rc2}")
    ok = (rc0 == 0 and rc1 != 0 and rc2 == 0)
    print(sid, "demo on clean:", rc0, "demo on patched:", rc1, "suite on patched:", rc2, "=>", "CONFIRMED" if ok else "REJECTED")
    if not ok:
        print(out0[-400:], out1[-400:], out2[-600:]); sys.exit(1)
    dst = f"{ROOT}/seeded/{sid}"
    os.makedirs(dst, exist_ok=True)
    for f in ['patch.diff', 'demo_test.go', 'notes.md']:
        if os.path.exists(f"{src}/{f}"): shutil.copy(f"{src}/{f}", f"{dst}/{f}")
    needs = sys.argv[3] if len(sys.argv) > 3 else ''
    json.dump(dict(id=sid, property=prop, demo_dir=target or '.', needs=needs, source='independent sub-agent given only the property text and a scratch worktree',
                   confirmed=ran), open(f"{dst}/meta.json", 'w'), indent=1)
finally:
    shutil.rmtree(scratch, ignore_errors=True)
