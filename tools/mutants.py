#!/usr/bin/env python3
"""Self-test of the checks: applies deliberate property-breaking changes (table in
tools/mutant_table.py, plus the seeded changes of /verif/seeded/*/patch.diff) to a
scratch copy of /repo, verifies that the repository's own tests still pass, and that
the quick check of the tagged property reports a VIOLATION.  /repo is never touched.

usage: mutants.py [-k substring] [--tier quick] [--list] [--write-patches]
"""
import sys, os, subprocess, shutil, json, time, argparse, difflib
ROOT = os.path.dirname(os.path.dirname(os.path.abspath(__file__)))
sys.path.insert(0, os.path.join(ROOT, 'tools'))
from mutant_table import MUTANTS
REPO = '/repo'
ENV = dict(os.environ, GOFLAGS='-mod=mod', GOPROXY='off', GOSUMDB='off', GOTOOLCHAIN='local')

def sh(cmd, cwd=None, env=None, timeout=1800):
    p = subprocess.run(cmd, shell=True, cwd=cwd, env=env or ENV, stdout=subprocess.PIPE, stderr=subprocess.STDOUT, timeout=timeout)
    return p.returncode, p.stdout.decode(errors='replace')

def fresh(scratch):
    shutil.rmtree(scratch, ignore_errors=True)
    os.makedirs(scratch)
    sh(f"rsync -a --exclude .git {REPO}/ {scratch}/repo/")
    os.makedirs(f"{scratch}/out/evidence"); os.makedirs(f"{scratch}/out/replays")
    shutil.copy(f"{ROOT}/known_findings.json", f"{scratch}/out/known_findings.json")

def apply(scratch, m):
    if 'patch' in m:
        rc, out = sh(f"patch -p1 -s < {m['patch']}", cwd=f"{scratch}/repo")
        return rc == 0, out
    for (path, old, new) in m['edits']:
        fp = f"{scratch}/repo/{path}"
        s = open(fp).read()
        if s.count(old) < 1:
            return False, f"pattern not found in {path}: {old!r}"
        s = s.replace(old, new, 1)
        open(fp, 'w').write(s)
    return True, ''

def diff_of(scratch, m):
    out = []
    for (path, old, new) in m.get('edits', []):
        a = open(f"{REPO}/{path}").read().splitlines(True)
        b = open(f"{scratch}/repo/{path}").read().splitlines(True)
        out += difflib.unified_diff(a, b, f"a/{path}", f"b/{path}")
    return ''.join(out)

def save(results):
    """merges results into evidence/selftest.json (called after every mutant, so that an interrupted run keeps what it has)"""
    path = f"{ROOT}/evidence/selftest.json"
    import fcntl
    lk = open(f"{ROOT}/.bin/selftest.lock", 'w'); fcntl.flock(lk, fcntl.LOCK_EX)
    old = {}
    if os.path.exists(path):
        try: old = {x['id']: x for x in json.load(open(path))['results']}
        except Exception: old = {}
    for r in results: old[r['id']] = r
    json.dump(dict(results=sorted(old.values(), key=lambda x: x['id'])), open(path + '.tmp', 'w'), indent=1)
    os.replace(path + '.tmp', path)
    lk.close()

def main():
    ap = argparse.ArgumentParser()
    ap.add_argument('-k', default='')
    ap.add_argument('--tier', default='quick')
    ap.add_argument('--list', action='store_true')
    ap.add_argument('--write-patches', action='store_true')
    ap.add_argument('--no-tests', action='store_true')
    ap.add_argument('--keep-replays', default='')
    ap.add_argument('--ids', default='', help='comma separated exact ids')
    args = ap.parse_args()
    muts = list(MUTANTS)
    seeded = os.path.join(ROOT, 'seeded')
    if os.path.isdir(seeded):
        for d in sorted(os.listdir(seeded)):
            pf = os.path.join(seeded, d, 'patch.diff'); mf = os.path.join(seeded, d, 'meta.json')
            if os.path.exists(pf) and os.path.exists(mf):
                meta = json.load(open(mf))
                muts.append(dict(id='seeded/' + d, prop=meta['property'], patch=pf, why=meta.get('needs', '')))
    muts = [m for m in muts if args.k in m['id'] or args.k == m['prop']]
    if args.ids:
        want = set(args.ids.split(','))
        muts = [m for m in muts if m['id'] in want]
    if args.list:
        for m in muts: print(m['id'], m['prop'])
        return
    scratch = os.environ.get('VERIF_SCRATCH', '/var/tmp') + '/ivgmut-%d' % os.getpid()
    results = []
    try:
        for m in muts:
            t0 = time.time()
            fresh(scratch)
            ok, msg = apply(scratch, m)
            r = dict(id=m['id'], property=m['prop'], why=m.get('why', ''))
            if not ok:
                r.update(status='not-applicable', detail=msg); results.append(r); print(m['id'], 'NOT APPLICABLE', msg); continue
            if args.write_patches and 'edits' in m:
                os.makedirs(f"{ROOT}/mutants", exist_ok=True)
                open(f"{ROOT}/mutants/{m['id']}.patch", 'w').write(diff_of(scratch, m))
            if not args.no_tests:
                rc, out = sh("go build ./... && go test -vet=off -count=1 ./...", cwd=f"{scratch}/repo")
                r['repo_tests_pass'] = (rc == 0)
                if rc != 0:
                    r.update(status='unrealistic', detail=out[-600:]); results.append(r); print(m['id'], 'UNREALISTIC (repo tests fail or no build)'); continue
            env = dict(ENV, VERIF_REPO=f"{scratch}/repo", VERIF_ROOT=f"{scratch}/out", VERIF_ALT_ID=os.environ.get('VERIF_ALT_ID', ''))
            props = m['prop'] if isinstance(m['prop'], list) else [m['prop']]
            caught = []
            for p in props:
                rc, out = sh(f"./check.sh {p} {args.tier}", cwd=ROOT, env=env)
                vio = [l for l in out.splitlines() if l.startswith('VIOLATION')]
                keys = [l.strip() for l in out.splitlines() if l.strip().startswith('key=')]
                if rc == 1 and vio:
                    caught.append(p)
                r.setdefault('checks', {})[p] = dict(exit=rc, violations=len(vio), first=(keys[0][:300] if keys else out[-300:]))
            if args.keep_replays and caught:
                import glob
                os.makedirs(args.keep_replays, exist_ok=True)
                for i, f in enumerate(sorted(glob.glob(f"{scratch}/out/replays/*.json"))):
                    shutil.copy(f, os.path.join(args.keep_replays, m['id'].replace('/', '_') + ('-%d' % i if i else '') + '.json'))
            r['status'] = 'caught' if caught else 'MISSED'
            r['wall_s'] = round(time.time() - t0, 1)
            results.append(r)
            save([r])
            print(m['id'], r['status'], json.dumps(r.get('checks'))[:400], flush=True)
    finally:
        shutil.rmtree(scratch, ignore_errors=True)
    save(results)
    missed = [r['id'] for r in results if r['status'] == 'MISSED']
    print('missed:', missed)
    sys.exit(1 if missed else 0)
main()
