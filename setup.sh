#!/bin/sh
# Run once after a fresh restore (offline): pre-builds the harness so that the
# first check does not pay the cold build.
cd "$(dirname "$0")" || exit 1
export GOFLAGS=-mod=mod GOPROXY=off GOSUMDB=off GOTOOLCHAIN=local CGO_ENABLED=0
mkdir -p .bin evidence replays
./check.sh build-all || exit 1
if [ -x ./inst/prebuild.sh ]; then ./inst/prebuild.sh || exit 1; fi
echo setup ok
