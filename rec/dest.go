// Package rec holds the observation points of the harness: a recording
// ivg.Destination and a recording raster.Rasterizer.
package rec

import (
	"fmt"
	"image/color"
	"math"
	"reflect"
	"strings"
	"unsafe"

	"github.com/reactivego/ivg"
)

// Method identifies a Destination method.
type Method uint8

const (
	MNone Method = iota
	MReset
	MSetCSel
	MSetNSel
	MSetCReg
	MSetNReg
	MSetLOD
	MStartPath
	MEndPath // ClosePathEndPath
	MAbsMove // ClosePathAbsMoveTo
	MRelMove // ClosePathRelMoveTo
	MAbsH
	MRelH
	MAbsV
	MRelV
	MAbsL
	MRelL
	MAbsT
	MRelT
	MAbsQ
	MRelQ
	MAbsS
	MRelS
	MAbsC
	MRelC
	MAbsA
	MRelA
	MCSel // read-backs (never delivered by Decode; used in histories)
	MNSel
	NMethods
)

var methodNames = [...]string{"none", "Reset", "SetCSel", "SetNSel", "SetCReg", "SetNReg", "SetLOD", "StartPath",
	"ClosePathEndPath", "ClosePathAbsMoveTo", "ClosePathRelMoveTo", "AbsHLineTo", "RelHLineTo", "AbsVLineTo", "RelVLineTo",
	"AbsLineTo", "RelLineTo", "AbsSmoothQuadTo", "RelSmoothQuadTo", "AbsQuadTo", "RelQuadTo", "AbsSmoothCubeTo",
	"RelSmoothCubeTo", "AbsCubeTo", "RelCubeTo", "AbsArcTo", "RelArcTo", "CSel", "NSel"}

func (m Method) String() string {
	if int(m) < len(methodNames) {
		return methodNames[m]
	}
	return fmt.Sprintf("Method(%d)", m)
}

// NArgs is the number of float arguments of each method (arcs: rx, ry, rot, x, y).
var NArgs = [NMethods]int{MSetNReg: 1, MSetLOD: 2, MStartPath: 2, MAbsMove: 2, MRelMove: 2, MAbsH: 1, MRelH: 1, MAbsV: 1, MRelV: 1,
	MAbsL: 2, MRelL: 2, MAbsT: 2, MRelT: 2, MAbsQ: 4, MRelQ: 4, MAbsS: 4, MRelS: 4, MAbsC: 6, MRelC: 6, MAbsA: 5, MRelA: 5}

// IsDrawing reports whether the method is a drawing-mode operation.
func (m Method) IsDrawing() bool { return m >= MEndPath && m <= MRelA }

// Call is one recorded Destination call.
type Call struct {
	M    Method
	Adj  uint8 // adj, or selector value for SetCSel/SetNSel
	Incr bool
	LA   bool // large arc
	SW   bool // sweep
	C    ivg.Color
	A    [6]float32
	VB   ivg.ViewBox
	Pal  *[64]color.RGBA
}

func fb(f float32) uint32 { return math.Float32bits(f) }

// Equal compares two calls bit for bit (NaN payloads included).
func (c *Call) Equal(d *Call) bool {
	if c.M != d.M || c.Adj != d.Adj || c.Incr != d.Incr || c.LA != d.LA || c.SW != d.SW || c.C != d.C {
		return false
	}
	for i := 0; i < 6; i++ {
		if fb(c.A[i]) != fb(d.A[i]) {
			return false
		}
	}
	if c.M == MReset {
		if fb(c.VB.MinX) != fb(d.VB.MinX) || fb(c.VB.MinY) != fb(d.VB.MinY) || fb(c.VB.MaxX) != fb(d.VB.MaxX) || fb(c.VB.MaxY) != fb(d.VB.MaxY) {
			return false
		}
		if (c.Pal == nil) != (d.Pal == nil) {
			return false
		}
		if c.Pal != nil && *c.Pal != *d.Pal {
			return false
		}
	}
	return true
}

func (c Call) String() string {
	var sb strings.Builder
	sb.WriteString(c.M.String())
	sb.WriteByte('(')
	switch c.M {
	case MReset:
		fmt.Fprintf(&sb, "vb=%v", c.VB)
		if c.Pal != nil {
			n := 63
			for ; n >= 0 && c.Pal[n] == (color.RGBA{0, 0, 0, 0xff}); n-- {
			}
			fmt.Fprintf(&sb, " pal[:%d]=%v", n+1, c.Pal[:n+1])
		}
	case MSetCSel, MSetNSel:
		fmt.Fprintf(&sb, "%d", c.Adj)
	case MSetCReg:
		fmt.Fprintf(&sb, "adj=%d incr=%v %s", c.Adj, c.Incr, ColorString(c.C))
	case MSetNReg:
		fmt.Fprintf(&sb, "adj=%d incr=%v %s", c.Adj, c.Incr, F(c.A[0]))
	case MStartPath:
		fmt.Fprintf(&sb, "adj=%d %s %s", c.Adj, F(c.A[0]), F(c.A[1]))
	case MAbsA, MRelA:
		fmt.Fprintf(&sb, "r=%s,%s rot=%s la=%v sw=%v to=%s,%s", F(c.A[0]), F(c.A[1]), F(c.A[2]), c.LA, c.SW, F(c.A[3]), F(c.A[4]))
	default:
		for i := 0; i < NArgs[c.M]; i++ {
			if i > 0 {
				sb.WriteByte(' ')
			}
			sb.WriteString(F(c.A[i]))
		}
	}
	sb.WriteByte(')')
	return sb.String()
}

// F formats a float32 with its bit pattern so that replays are exact.
func F(f float32) string { return fmt.Sprintf("%g[%08x]", f, math.Float32bits(f)) }

func CallsString(cs []Call) string {
	var sb strings.Builder
	for i, c := range cs {
		if i > 0 {
			sb.WriteString("; ")
		}
		if i >= 40 {
			fmt.Fprintf(&sb, "... (%d calls)", len(cs))
			break
		}
		sb.WriteString(c.String())
	}
	return sb.String()
}

// Dest records every call; if Next is set the call is forwarded and
// CSel()/NSel() are answered by Next, else by a trivial model.
type Dest struct {
	// CountOnly: count the calls in N instead of storing them (very long inputs)
	CountOnly bool
	N         int64
	Calls     []Call
	Next      ivg.Destination
	// NoPal disables copying palettes (saves 256 bytes per Reset).
	NoPal bool
	cSel  uint8
	nSel  uint8
	// ReadBacks counts CSel/NSel queries.
	ReadBacks int
	// Limit, if > 0, panics with ErrLimit once more calls than that arrive
	// (termination guard for the decoder checks).
	Limit int
}

func (d *Dest) ResetLog() { d.Calls = d.Calls[:0]; d.cSel, d.nSel, d.ReadBacks = 0, 0, 0 }

func (d *Dest) add(c Call) {
	if d.CountOnly {
		d.N++
		return
	}
	d.Calls = append(d.Calls, c)
}

func (d *Dest) Reset(vb ivg.ViewBox, pal [64]color.RGBA) {
	c := Call{M: MReset, VB: vb}
	if !d.NoPal {
		p := pal
		c.Pal = &p
	}
	d.add(c)
	d.cSel, d.nSel = 0, 0
	if d.Next != nil {
		d.Next.Reset(vb, pal)
	}
}
func (d *Dest) CSel() uint8 {
	d.ReadBacks++
	if d.Next != nil {
		return d.Next.CSel()
	}
	return d.cSel
}
func (d *Dest) NSel() uint8 {
	d.ReadBacks++
	if d.Next != nil {
		return d.Next.NSel()
	}
	return d.nSel
}
func (d *Dest) SetCSel(s uint8) {
	d.add(Call{M: MSetCSel, Adj: s})
	d.cSel = s & 0x3f
	if d.Next != nil {
		d.Next.SetCSel(s)
	}
}
func (d *Dest) SetNSel(s uint8) {
	d.add(Call{M: MSetNSel, Adj: s})
	d.nSel = s & 0x3f
	if d.Next != nil {
		d.Next.SetNSel(s)
	}
}
func (d *Dest) SetCReg(adj uint8, incr bool, c ivg.Color) {
	d.add(Call{M: MSetCReg, Adj: adj, Incr: incr, C: c})
	if incr {
		d.cSel = (d.cSel + 1) & 0x3f
	}
	if d.Next != nil {
		d.Next.SetCReg(adj, incr, c)
	}
}
func (d *Dest) SetNReg(adj uint8, incr bool, f float32) {
	d.add(Call{M: MSetNReg, Adj: adj, Incr: incr, A: [6]float32{f}})
	if incr {
		d.nSel = (d.nSel + 1) & 0x3f
	}
	if d.Next != nil {
		d.Next.SetNReg(adj, incr, f)
	}
}
func (d *Dest) SetLOD(l0, l1 float32) {
	d.add(Call{M: MSetLOD, A: [6]float32{l0, l1}})
	if d.Next != nil {
		d.Next.SetLOD(l0, l1)
	}
}
func (d *Dest) StartPath(adj uint8, x, y float32) {
	d.add(Call{M: MStartPath, Adj: adj, A: [6]float32{x, y}})
	if d.Next != nil {
		d.Next.StartPath(adj, x, y)
	}
}
func (d *Dest) ClosePathEndPath() {
	d.add(Call{M: MEndPath})
	if d.Next != nil {
		d.Next.ClosePathEndPath()
	}
}
func (d *Dest) ClosePathAbsMoveTo(x, y float32) {
	d.add(Call{M: MAbsMove, A: [6]float32{x, y}})
	if d.Next != nil {
		d.Next.ClosePathAbsMoveTo(x, y)
	}
}
func (d *Dest) ClosePathRelMoveTo(x, y float32) {
	d.add(Call{M: MRelMove, A: [6]float32{x, y}})
	if d.Next != nil {
		d.Next.ClosePathRelMoveTo(x, y)
	}
}
func (d *Dest) AbsHLineTo(x float32) {
	d.add(Call{M: MAbsH, A: [6]float32{x}})
	if d.Next != nil {
		d.Next.AbsHLineTo(x)
	}
}
func (d *Dest) RelHLineTo(x float32) {
	d.add(Call{M: MRelH, A: [6]float32{x}})
	if d.Next != nil {
		d.Next.RelHLineTo(x)
	}
}
func (d *Dest) AbsVLineTo(y float32) {
	d.add(Call{M: MAbsV, A: [6]float32{y}})
	if d.Next != nil {
		d.Next.AbsVLineTo(y)
	}
}
func (d *Dest) RelVLineTo(y float32) {
	d.add(Call{M: MRelV, A: [6]float32{y}})
	if d.Next != nil {
		d.Next.RelVLineTo(y)
	}
}
func (d *Dest) AbsLineTo(x, y float32) {
	d.add(Call{M: MAbsL, A: [6]float32{x, y}})
	if d.Next != nil {
		d.Next.AbsLineTo(x, y)
	}
}
func (d *Dest) RelLineTo(x, y float32) {
	d.add(Call{M: MRelL, A: [6]float32{x, y}})
	if d.Next != nil {
		d.Next.RelLineTo(x, y)
	}
}
func (d *Dest) AbsSmoothQuadTo(x, y float32) {
	d.add(Call{M: MAbsT, A: [6]float32{x, y}})
	if d.Next != nil {
		d.Next.AbsSmoothQuadTo(x, y)
	}
}
func (d *Dest) RelSmoothQuadTo(x, y float32) {
	d.add(Call{M: MRelT, A: [6]float32{x, y}})
	if d.Next != nil {
		d.Next.RelSmoothQuadTo(x, y)
	}
}
func (d *Dest) AbsQuadTo(x1, y1, x, y float32) {
	d.add(Call{M: MAbsQ, A: [6]float32{x1, y1, x, y}})
	if d.Next != nil {
		d.Next.AbsQuadTo(x1, y1, x, y)
	}
}
func (d *Dest) RelQuadTo(x1, y1, x, y float32) {
	d.add(Call{M: MRelQ, A: [6]float32{x1, y1, x, y}})
	if d.Next != nil {
		d.Next.RelQuadTo(x1, y1, x, y)
	}
}
func (d *Dest) AbsSmoothCubeTo(x2, y2, x, y float32) {
	d.add(Call{M: MAbsS, A: [6]float32{x2, y2, x, y}})
	if d.Next != nil {
		d.Next.AbsSmoothCubeTo(x2, y2, x, y)
	}
}
func (d *Dest) RelSmoothCubeTo(x2, y2, x, y float32) {
	d.add(Call{M: MRelS, A: [6]float32{x2, y2, x, y}})
	if d.Next != nil {
		d.Next.RelSmoothCubeTo(x2, y2, x, y)
	}
}
func (d *Dest) AbsCubeTo(x1, y1, x2, y2, x, y float32) {
	d.add(Call{M: MAbsC, A: [6]float32{x1, y1, x2, y2, x, y}})
	if d.Next != nil {
		d.Next.AbsCubeTo(x1, y1, x2, y2, x, y)
	}
}
func (d *Dest) RelCubeTo(x1, y1, x2, y2, x, y float32) {
	d.add(Call{M: MRelC, A: [6]float32{x1, y1, x2, y2, x, y}})
	if d.Next != nil {
		d.Next.RelCubeTo(x1, y1, x2, y2, x, y)
	}
}
func (d *Dest) AbsArcTo(rx, ry, rot float32, la, sw bool, x, y float32) {
	d.add(Call{M: MAbsA, LA: la, SW: sw, A: [6]float32{rx, ry, rot, x, y}})
	if d.Next != nil {
		d.Next.AbsArcTo(rx, ry, rot, la, sw, x, y)
	}
}
func (d *Dest) RelArcTo(rx, ry, rot float32, la, sw bool, x, y float32) {
	d.add(Call{M: MRelA, LA: la, SW: sw, A: [6]float32{rx, ry, rot, x, y}})
	if d.Next != nil {
		d.Next.RelArcTo(rx, ry, rot, la, sw, x, y)
	}
}

// Apply performs the recorded call on a Destination.
func (c *Call) Apply(d ivg.Destination) {
	a := &c.A
	switch c.M {
	case MReset:
		pal := ivg.DefaultPalette
		if c.Pal != nil {
			pal = *c.Pal
		}
		d.Reset(c.VB, pal)
	case MSetCSel:
		d.SetCSel(c.Adj)
	case MSetNSel:
		d.SetNSel(c.Adj)
	case MSetCReg:
		d.SetCReg(c.Adj, c.Incr, c.C)
	case MSetNReg:
		d.SetNReg(c.Adj, c.Incr, a[0])
	case MSetLOD:
		d.SetLOD(a[0], a[1])
	case MStartPath:
		d.StartPath(c.Adj, a[0], a[1])
	case MEndPath:
		d.ClosePathEndPath()
	case MAbsMove:
		d.ClosePathAbsMoveTo(a[0], a[1])
	case MRelMove:
		d.ClosePathRelMoveTo(a[0], a[1])
	case MAbsH:
		d.AbsHLineTo(a[0])
	case MRelH:
		d.RelHLineTo(a[0])
	case MAbsV:
		d.AbsVLineTo(a[0])
	case MRelV:
		d.RelVLineTo(a[0])
	case MAbsL:
		d.AbsLineTo(a[0], a[1])
	case MRelL:
		d.RelLineTo(a[0], a[1])
	case MAbsT:
		d.AbsSmoothQuadTo(a[0], a[1])
	case MRelT:
		d.RelSmoothQuadTo(a[0], a[1])
	case MAbsQ:
		d.AbsQuadTo(a[0], a[1], a[2], a[3])
	case MRelQ:
		d.RelQuadTo(a[0], a[1], a[2], a[3])
	case MAbsS:
		d.AbsSmoothCubeTo(a[0], a[1], a[2], a[3])
	case MRelS:
		d.RelSmoothCubeTo(a[0], a[1], a[2], a[3])
	case MAbsC:
		d.AbsCubeTo(a[0], a[1], a[2], a[3], a[4], a[5])
	case MRelC:
		d.RelCubeTo(a[0], a[1], a[2], a[3], a[4], a[5])
	case MAbsA:
		d.AbsArcTo(a[0], a[1], a[2], c.LA, c.SW, a[3], a[4])
	case MRelA:
		d.RelArcTo(a[0], a[1], a[2], c.LA, c.SW, a[3], a[4])
	case MCSel:
		d.CSel()
	case MNSel:
		d.NSel()
	}
}

// ---- raw access to ivg.Color (unexported fields) ---------------------------

var colorTypOff, colorDataOff uintptr
var colorLayoutOK bool

func init() {
	t := reflect.TypeOf(ivg.Color{})
	if t.Kind() != reflect.Struct || t.NumField() != 2 {
		return
	}
	f0, f1 := t.Field(0), t.Field(1)
	if f0.Type.Kind() == reflect.Uint8 && f1.Type == reflect.TypeOf(color.RGBA{}) {
		colorTypOff, colorDataOff, colorLayoutOK = f0.Offset, f1.Offset, true
	}
}

// Color kinds, numerically equal to the spec order used by ivg.ColorType.
const (
	KRGBA  = 0
	KPal   = 1
	KCReg  = 2
	KBlend = 3
)

// ColorParts returns the raw kind and payload of an ivg.Color.
func ColorParts(c ivg.Color) (kind uint8, data color.RGBA) {
	if colorLayoutOK {
		p := unsafe.Pointer(&c)
		return *(*uint8)(unsafe.Add(p, colorTypOff)), *(*color.RGBA)(unsafe.Add(p, colorDataOff))
	}
	// slow path, independent of layout
	if x, ok := c.Encode3Indirect(); ok {
		return KBlend, color.RGBA{R: x[0], G: x[1], B: x[2]}
	}
	if x, ok := c.Encode4(); ok {
		return KRGBA, color.RGBA{R: x[0], G: x[1], B: x[2], A: x[3]}
	}
	if x, ok := c.Encode1(); ok {
		if x >= 0xc0 {
			return KCReg, color.RGBA{R: x & 0x3f}
		}
		return KPal, color.RGBA{R: x & 0x3f}
	}
	return 255, color.RGBA{}
}

// MakeColor builds an ivg.Color from raw parts without going through the
// constructors' masking.
func MakeColor(kind uint8, data color.RGBA) ivg.Color {
	var c ivg.Color
	if colorLayoutOK {
		p := unsafe.Pointer(&c)
		*(*uint8)(unsafe.Add(p, colorTypOff)) = kind
		*(*color.RGBA)(unsafe.Add(p, colorDataOff)) = data
		return c
	}
	switch kind {
	case KRGBA:
		return ivg.RGBAColor(data)
	case KPal:
		return ivg.PaletteIndexColor(data.R)
	case KCReg:
		return ivg.CRegColor(data.R)
	default:
		return ivg.BlendColor(data.R, data.G, data.B)
	}
}

func ColorString(c ivg.Color) string {
	k, d := ColorParts(c)
	switch k {
	case KRGBA:
		return fmt.Sprintf("rgba:%02x%02x%02x%02x", d.R, d.G, d.B, d.A)
	case KPal:
		return fmt.Sprintf("pal:%d", d.R)
	case KCReg:
		return fmt.Sprintf("creg:%d", d.R)
	case KBlend:
		return fmt.Sprintf("blend:%02x,%02x,%02x", d.R, d.G, d.B)
	}
	return fmt.Sprintf("color?%d:%v", k, d)
}

// HashCalls folds a call list into h.
func HashCalls(h interface {
	Byte(byte)
	U32(uint32)
}, cs []Call, withArgs bool) {
	for i := range cs {
		c := &cs[i]
		h.Byte(byte(c.M))
		h.Byte(c.Adj)
		if c.Incr {
			h.Byte(1)
		}
		if c.LA {
			h.Byte(2)
		}
		if c.SW {
			h.Byte(4)
		}
		if withArgs {
			k, d := ColorParts(c.C)
			h.Byte(k)
			h.Byte(d.R)
			h.Byte(d.G)
			h.Byte(d.B)
			h.Byte(d.A)
			for j := 0; j < NArgs[c.M]; j++ {
				h.U32(math.Float32bits(c.A[j]))
			}
		}
	}
}
