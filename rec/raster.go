package rec

import (
	"fmt"
	"image"
	"image/color"
	"math"
	"strings"

	"github.com/reactivego/ivg/raster"
)

// RKind identifies a raster.Rasterizer call.
type RKind uint8

const (
	RReset RKind = iota + 1
	RMoveTo
	RLineTo
	RQuadTo
	RCubeTo
	RClosePath
	RDraw
)

var rkNames = [...]string{"?", "Reset", "MoveTo", "LineTo", "QuadTo", "CubeTo", "ClosePath", "Draw"}

func (k RKind) String() string { return rkNames[k] }

// Paint is a snapshot of the src image handed to Draw.
type Paint struct {
	Kind    int // 0 none, 1 uniform, 2 gradient, 3 other
	Flat    color.RGBA64
	FlatOK  bool // the uniform's colour was a color.RGBA / *color.RGBA
	Flat8   color.RGBA
	Shape   int
	Spread  int
	Colors  []color.RGBA
	Offsets []float64
	M       [6]float64
	Img     image.Image // live pointer (only valid until the next path)
}

func (p *Paint) Equal(q *Paint) bool {
	if p.Kind != q.Kind {
		return false
	}
	switch p.Kind {
	case 1:
		return p.Flat == q.Flat
	case 2:
		if p.Shape != q.Shape || p.Spread != q.Spread || len(p.Colors) != len(q.Colors) || len(p.Offsets) != len(q.Offsets) {
			return false
		}
		for i := range p.Colors {
			if p.Colors[i] != q.Colors[i] {
				return false
			}
		}
		for i := range p.Offsets {
			if math.Float64bits(p.Offsets[i]) != math.Float64bits(q.Offsets[i]) {
				return false
			}
		}
		for i := range p.M {
			if math.Float64bits(p.M[i]) != math.Float64bits(q.M[i]) {
				return false
			}
		}
	}
	return true
}

func (p Paint) String() string {
	switch p.Kind {
	case 1:
		return fmt.Sprintf("flat %04x:%04x:%04x:%04x", p.Flat.R, p.Flat.G, p.Flat.B, p.Flat.A)
	case 2:
		return fmt.Sprintf("gradient shape=%d spread=%d colors=%v offsets=%v m=%v", p.Shape, p.Spread, p.Colors, p.Offsets, p.M)
	case 3:
		return "other image"
	}
	return "none"
}

// RCall is one recorded rasteriser call.
type RCall struct {
	K     RKind
	A     [6]float32
	W, H  int
	R     image.Rectangle
	SP    image.Point
	Paint Paint
	// pen / first as held by the recording rasteriser *before* the call
	PenX, PenY, FirstX, FirstY float32
}

func (c RCall) String() string {
	switch c.K {
	case RReset:
		return fmt.Sprintf("Reset(%d,%d)", c.W, c.H)
	case RMoveTo, RLineTo:
		return fmt.Sprintf("%s(%g,%g)", c.K, c.A[0], c.A[1])
	case RQuadTo:
		return fmt.Sprintf("QuadTo(%g,%g,%g,%g)", c.A[0], c.A[1], c.A[2], c.A[3])
	case RCubeTo:
		return fmt.Sprintf("CubeTo(%g,%g,%g,%g,%g,%g)", c.A[0], c.A[1], c.A[2], c.A[3], c.A[4], c.A[5])
	case RClosePath:
		return "ClosePath()"
	case RDraw:
		return fmt.Sprintf("Draw(%v,%s,%v)", c.R, c.Paint, c.SP)
	}
	return "?"
}

func RCallsString(cs []RCall) string {
	var sb strings.Builder
	for i, c := range cs {
		if i > 0 {
			sb.WriteString("; ")
		}
		if i >= 40 {
			fmt.Fprintf(&sb, "... (%d calls)", len(cs))
			break
		}
		sb.WriteString(c.String())
	}
	return sb.String()
}

// EqualGeom compares kind and arguments bit for bit.
func (c *RCall) EqualGeom(d *RCall) bool {
	if c.K != d.K || c.W != d.W || c.H != d.H || c.R != d.R || c.SP != d.SP {
		return false
	}
	for i := range c.A {
		if math.Float32bits(c.A[i]) != math.Float32bits(d.A[i]) {
			return false
		}
	}
	return true
}

// Raster is a recording raster.Rasterizer with exactly the pen semantics of
// golang.org/x/image/vector: MoveTo sets first and pen, ClosePath is
// LineTo(first), Reset zeroes the pen.
type Raster struct {
	Calls          []RCall
	w, h           int
	penX, penY     float32
	firstX, firstY float32
	Queries        int
	// Next, when set, receives every call too (e.g. a vec.Rasterizer).
	Next raster.Rasterizer
}

var _ raster.Rasterizer = (*Raster)(nil)

func (r *Raster) ResetLog() { r.Calls = r.Calls[:0]; r.Queries = 0 }

// Fresh puts the recorder back into its initial state (pen, size, log), keeping the log's
// capacity and the rasteriser it forwards to: what a case observes must not depend on the
// case that ran before it.
func (r *Raster) Fresh() { *r = Raster{Calls: r.Calls[:0], Next: r.Next} }

func (r *Raster) add(c RCall) {
	c.PenX, c.PenY, c.FirstX, c.FirstY = r.penX, r.penY, r.firstX, r.firstY
	r.Calls = append(r.Calls, c)
}

func (r *Raster) Reset(w, h int) {
	r.add(RCall{K: RReset, W: w, H: h})
	r.w, r.h = w, h
	r.penX, r.penY, r.firstX, r.firstY = 0, 0, 0, 0
	if r.Next != nil {
		r.Next.Reset(w, h)
	}
}
func (r *Raster) Size() image.Point       { r.Queries++; return image.Point{r.w, r.h} }
func (r *Raster) Bounds() image.Rectangle { r.Queries++; return image.Rect(0, 0, r.w, r.h) }
func (r *Raster) Pen() (x, y float32)     { r.Queries++; return r.penX, r.penY }
func (r *Raster) MoveTo(ax, ay float32) {
	r.add(RCall{K: RMoveTo, A: [6]float32{ax, ay}})
	r.penX, r.penY, r.firstX, r.firstY = ax, ay, ax, ay
	if r.Next != nil {
		r.Next.MoveTo(ax, ay)
	}
}
func (r *Raster) LineTo(bx, by float32) {
	r.add(RCall{K: RLineTo, A: [6]float32{bx, by}})
	r.penX, r.penY = bx, by
	if r.Next != nil {
		r.Next.LineTo(bx, by)
	}
}
func (r *Raster) QuadTo(bx, by, cx, cy float32) {
	r.add(RCall{K: RQuadTo, A: [6]float32{bx, by, cx, cy}})
	r.penX, r.penY = cx, cy
	if r.Next != nil {
		r.Next.QuadTo(bx, by, cx, cy)
	}
}
func (r *Raster) CubeTo(bx, by, cx, cy, dx, dy float32) {
	r.add(RCall{K: RCubeTo, A: [6]float32{bx, by, cx, cy, dx, dy}})
	r.penX, r.penY = dx, dy
	if r.Next != nil {
		r.Next.CubeTo(bx, by, cx, cy, dx, dy)
	}
}
func (r *Raster) ClosePath() {
	r.add(RCall{K: RClosePath})
	r.penX, r.penY = r.firstX, r.firstY
	if r.Next != nil {
		r.Next.ClosePath()
	}
}
func (r *Raster) Draw(rect image.Rectangle, src image.Image, sp image.Point) {
	r.add(RCall{K: RDraw, R: rect, SP: sp, Paint: SnapshotPaint(src)})
	if r.Next != nil {
		r.Next.Draw(rect, src, sp)
	}
}

// SnapshotPaint captures what a user of raster.Rasterizer can learn about src.
func SnapshotPaint(src image.Image) Paint {
	p := Paint{Img: src}
	switch s := src.(type) {
	case nil:
		return p
	case *image.Uniform:
		p.Kind = 1
		r, g, b, a := s.C.RGBA()
		p.Flat = color.RGBA64{uint16(r), uint16(g), uint16(b), uint16(a)}
		switch c := s.C.(type) {
		case color.RGBA:
			p.Flat8, p.FlatOK = c, true
		case *color.RGBA:
			p.Flat8, p.FlatOK = *c, true
		}
		return p
	}
	if g, ok := src.(raster.GradientConfig); ok {
		p.Kind = 2
		p.Shape = g.GradientShape()
		p.Spread = g.SpreadMethod()
		p.Colors = append([]color.RGBA(nil), g.StopColors()...)
		p.Offsets = append([]float64(nil), g.StopOffsets()...)
		p.M[0], p.M[1], p.M[2], p.M[3], p.M[4], p.M[5] = g.Transform()
		return p
	}
	p.Kind = 3
	return p
}
