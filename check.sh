#!/bin/sh
# usage: check.sh <Cxx> <quick|thorough>   |   check.sh replay <file>   |   check.sh build
# Rebuilds the harness against the current /repo working tree (through the
# module replace directive and generated overlays) and runs one check.
cd "$(dirname "$0")" || exit 2
export GOFLAGS=-mod=mod GOPROXY=off GOSUMDB=off GOTOOLCHAIN=local CGO_ENABLED=0
: "${VERIF_ROOT:=$(pwd)}"; export VERIF_ROOT
mkdir -p .bin
MODFLAG=""; SUF=""
if [ -n "$VERIF_REPO" ] && [ "$VERIF_REPO" != "/repo" ]; then
	# selftest only: build against a scratch copy of the tree (mutants, candidate fixes)
	SUF="-alt$VERIF_ALT_ID"
	sed "s#=> /repo#=> $VERIF_REPO#" go.mod > ".bin/mod$SUF.mod"
	cp go.sum ".bin/mod$SUF.sum"
	MODFLAG="-modfile=.bin/mod$SUF.mod"
	BIN=".bin/ivgmc$SUF"
else
	BIN=".bin/ivgmc"
fi
build() {
	if [ -f inst/overlay.sh ]; then
		sh inst/overlay.sh ".bin/overlay$SUF.json" >/dev/null 2>.bin/overlay.log
	fi
	if [ -f ".bin/overlay$SUF.json" ] && go build $MODFLAG -tags verif -overlay ".bin/overlay$SUF.json" -o $BIN ./cmd/ivgmc 2>.bin/build$SUF.log; then
		return 0
	fi
	# fall back to the public API only (a refactored tree may not accept the export overlay)
	go build $MODFLAG -o $BIN ./cmd/ivgmc 2>.bin/build$SUF.log
}
if ! build; then
	echo "HARNESS-ERROR: build failed"; cat .bin/build$SUF.log; exit 2
fi
# C18 needs two more binaries, both rebuilt from the current tree: the instrumented
# build (scheduling points + shared-state census, generated overlay) and the -race build.
build_c18() {
	R="${VERIF_REPO:-/repo}"
	go build -o ".bin/ivginst$SUF" ./cmd/ivginst 2>.bin/build-inst$SUF.log || return 1
	".bin/ivginst$SUF" "$R" ".bin/inst$SUF" ".bin/overlay-inst$SUF.json" ".bin/overlay$SUF.json" >>.bin/build-inst$SUF.log 2>&1 || return 1
	go build $MODFLAG -tags "verif verifsched" -overlay ".bin/overlay-inst$SUF.json" -o ".bin/ivgmc-inst$SUF" ./cmd/ivgmc 2>>.bin/build-inst$SUF.log || return 1
	CGO_ENABLED=1 go build $MODFLAG -race -o ".bin/ivgmc-race$SUF" ./cmd/ivgrace 2>.bin/build-race$SUF.log || return 1
}
if [ "$1" = "C18" ] || [ "$1" = "build-all" ] || { [ "$1" = "replay" ] && case "$2" in *C18*) true;; *) false;; esac; }; then
	if ! build_c18; then
		echo "HARNESS-ERROR: C18 build failed"; cat .bin/build-inst$SUF.log .bin/build-race$SUF.log 2>/dev/null | tail -20; exit 2
	fi
fi
case "$1" in
build|build-all) exit 0 ;;
replay) exec $BIN replay "$2" ;;
selftest) shift; exec $BIN selftest "$@" ;;
*) exec $BIN check "$1" -tier "${2:-quick}" ;;
esac
