#!/bin/sh
# usage: check.sh <Cxx> <quick|thorough>   |   check.sh replay <file>   |   check.sh build
# Rebuilds the harness against the current /repo working tree (through the
# module replace directive and generated overlays) and runs one check.
cd "$(dirname "$0")" || exit 2
export GOFLAGS=-mod=mod GOPROXY=off GOSUMDB=off GOTOOLCHAIN=local CGO_ENABLED=0
mkdir -p .bin
build() {
	if [ -f inst/overlay.sh ]; then
		sh inst/overlay.sh >/dev/null 2>.bin/overlay.log
	fi
	if [ -f .bin/overlay.json ] && go build -tags verif -overlay .bin/overlay.json -o .bin/ivgmc ./cmd/ivgmc 2>.bin/build.log; then
		return 0
	fi
	# fall back to the public API only (a refactored tree may not accept the export overlay)
	go build -o .bin/ivgmc ./cmd/ivgmc 2>.bin/build.log
}
if ! build; then
	echo "HARNESS-ERROR: build failed"; cat .bin/build.log; exit 2
fi
case "$1" in
build) exit 0 ;;
replay) exec .bin/ivgmc replay "$2" ;;
selftest) shift; exec .bin/ivgmc selftest "$@" ;;
*) exec .bin/ivgmc check "$1" -tier "${2:-quick}" ;;
esac
