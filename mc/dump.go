package mc

import (
	"math"
	"reflect"
)

// DumpHash folds every field of v (exported or not, following pointers,
// interfaces, slices by length, arrays, maps excluded) into a hash; fields
// whose name is in drop are skipped. Used for canonical state forms.
func DumpHash(h *Hasher, v reflect.Value, drop map[string]bool) {
	switch v.Kind() {
	case reflect.Bool:
		h.Bool(v.Bool())
	case reflect.Int, reflect.Int8, reflect.Int16, reflect.Int32, reflect.Int64:
		h.U64(uint64(v.Int()))
	case reflect.Uint, reflect.Uint8, reflect.Uint16, reflect.Uint32, reflect.Uint64, reflect.Uintptr:
		h.U64(v.Uint())
	case reflect.Float32:
		h.U32(math.Float32bits(float32(v.Float())))
	case reflect.Float64:
		h.U64(math.Float64bits(v.Float()))
	case reflect.String:
		h.Str(v.String())
	case reflect.Slice:
		h.U32(uint32(v.Len()))
		if v.Type().Elem().Kind() == reflect.Uint8 {
			for i := 0; i < v.Len(); i++ {
				h.Byte(byte(v.Index(i).Uint()))
			}
			return
		}
		for i := 0; i < v.Len(); i++ {
			DumpHash(h, v.Index(i), drop)
		}
	case reflect.Array:
		for i := 0; i < v.Len(); i++ {
			DumpHash(h, v.Index(i), drop)
		}
	case reflect.Struct:
		t := v.Type()
		for i := 0; i < v.NumField(); i++ {
			if drop[t.Field(i).Name] {
				continue
			}
			h.Byte(byte(i))
			DumpHash(h, v.Field(i), drop)
		}
	case reflect.Ptr, reflect.Interface:
		if v.IsNil() {
			h.Byte(0)
			return
		}
		h.Byte(1)
		if v.Kind() == reflect.Interface {
			h.Str(v.Elem().Type().String())
		}
		if v.Kind() == reflect.Ptr && v.Elem().Kind() == reflect.Struct && v.Elem().NumField() > 64 {
			return
		}
		DumpHash(h, v.Elem(), drop)
	default:
		// funcs, chans, maps: not part of any state we canonicalise
		h.Byte(0xee)
	}
}
