package mc

import (
	"bytes"
	"crypto/sha1"
	"encoding/json"
	"flag"
	"fmt"
	"os"
	"os/exec"
	"path/filepath"
	"runtime"
	"runtime/debug"
	"sort"
	"strconv"
	"strings"
	"sync"
	"time"
)

// Root is the /verif directory (evidence, replays, known findings live here).
var Root = func() string {
	if r := os.Getenv("VERIF_ROOT"); r != "" {
		return r
	}
	return "/verif"
}()

// RealStdout is the process' original stdout; fd 1 is pointed at /dev/null
// while checks run because DestinationLogger prints with fmt.Printf.
var RealStdout = os.Stdout

func seedFromEnv() int64 {
	if s := os.Getenv("VERIF_SEED"); s != "" {
		if v, err := strconv.ParseInt(s, 10, 64); err == nil {
			return v
		}
	}
	return 0
}

func horizon(tier string) time.Duration {
	if s := os.Getenv("VERIF_HORIZON_S"); s != "" {
		if v, err := strconv.Atoi(s); err == nil {
			return time.Duration(v) * time.Second
		}
	}
	if tier == "thorough" {
		return 40 * time.Minute
	}
	return 150 * time.Second
}

// Main is the entry point of cmd/ivgmc.
func Main() {
	if len(os.Args) < 2 {
		fmt.Fprintln(os.Stderr, "usage: ivgmc check <Cxx> [-tier quick|thorough] | replay <file> | list")
		os.Exit(2)
	}
	switch os.Args[1] {
	case "list":
		for _, id := range IDs() {
			fmt.Println(id)
		}
	case "check":
		os.Exit(cmdCheck(os.Args[2:]))
	case "worker":
		os.Exit(cmdWorker(os.Args[2:]))
	case "replay":
		os.Exit(cmdReplay(os.Args[2:]))
	default:
		if h, ok := extraCmds[os.Args[1]]; ok {
			os.Exit(h(os.Args[2:]))
		}
		fmt.Fprintln(os.Stderr, "unknown command", os.Args[1])
		os.Exit(2)
	}
}

var extraCmds = map[string]func([]string) int{}

func RegisterCommand(name string, f func([]string) int) { extraCmds[name] = f }

func silenceStdout() {
	devnull, err := os.OpenFile("/dev/null", os.O_WRONLY, 0)
	if err != nil {
		return
	}
	// keep a duplicate of the real stdout
	nfd, err := dupFD(1)
	if err != nil {
		return
	}
	RealStdout = os.NewFile(uintptr(nfd), "realstdout")
	dup2FD(int(devnull.Fd()), 1)
	os.Stdout = os.NewFile(1, "/dev/null")
}

func cmdWorker(args []string) int {
	fs := flag.NewFlagSet("worker", flag.ExitOnError)
	prop := fs.String("prop", "", "")
	tier := fs.String("tier", "quick", "")
	idx := fs.Int("idx", 0, "")
	n := fs.Int("n", 1, "")
	out := fs.String("out", "", "")
	seed := fs.Int64("seed", 0, "")
	deadline := fs.Int64("deadline", 0, "")
	claim := fs.String("claim", "", "")
	onlyUnit := fs.Int("unit", -1, "")
	journalCases := fs.Bool("journalcases", false, "")
	fs.Parse(args)
	c := Lookup(*prop)
	if c == nil {
		fmt.Fprintln(os.Stderr, "unknown property", *prop)
		return 2
	}
	silenceStdout()
	debug.SetGCPercent(200)
	var dl time.Time
	if *deadline > 0 {
		dl = time.Unix(*deadline, 0)
	}
	w := NewW(*prop, *tier, *seed, dl)
	units := c.Units(*tier)
	setMemLimit()
	unitJournal := *out + ".journal"
	if *journalCases {
		if f, err := os.OpenFile(unitJournal, os.O_CREATE|os.O_WRONLY|os.O_TRUNC, 0o644); err == nil {
			w.SetJournal(f)
		}
	}

	finish := func(code int) int {
		res, err := w.Finish(filepath.Dir(*out), *idx)
		if err != nil {
			fmt.Fprintln(os.Stderr, "worker finish:", err)
			return 2
		}
		b, _ := json.Marshal(res)
		if err := os.WriteFile(*out, b, 0o644); err != nil {
			fmt.Fprintln(os.Stderr, "worker write:", err)
			return 2
		}
		return code
	}

	// watchdog: a single case that makes no progress for stallLimit is a
	// termination violation naming the case in flight.
	stall := 120 * time.Second
	if s := os.Getenv("VERIF_STALL_S"); s != "" {
		if v, err := strconv.Atoi(s); err == nil {
			stall = time.Duration(v) * time.Second
		}
	}
	done := make(chan struct{})
	var once sync.Once
	// only for checks whose property is about termination (C02): elsewhere a slow external
	// step (e.g. the -race pass of C18 on a loaded machine) must never become an alarm
	if c.CrashIsViolation {
		go watchdog(w, done, &once, stall, finish)
	}

	next := func(prev int) int {
		if *onlyUnit >= 0 {
			if prev < 0 {
				return *onlyUnit
			}
			return 1 << 30
		}
		if *claim != "" {
			return claimUnit(*claim)
		}
		if prev < 0 {
			return *idx
		}
		return prev + *n
	}
	for u := next(-1); u < units; u = next(u) {
		w.Unit = u
		if !*journalCases {
			os.WriteFile(unitJournal, []byte(fmt.Sprintf("U %d\n", u)), 0o644)
		} else if w.Journaling() {
			w.JournalCase(func() string { return fmt.Sprintf("unit %d", u) })
		}
		func() {
			defer func() {
				if r := recover(); r != nil {
					desc := "unknown"
					if f, ok := w.cur.Load().(func() string); ok && f != nil {
						desc = f()
					}
					stack := string(debug.Stack())
					w.res.Exhaustive = false
					w.res.Caps = append(w.res.Caps, fmt.Sprintf("unit %d aborted by panic", u))
					w.Fail("panic:"+panicSite(stack), fmt.Sprintf("panic: %v", r), map[string]string{"kind": "panic", "in_flight": desc, "stack": trimStack(stack)})
				}
			}()
			c.Run(w, u)
		}()
		w.res.UnitsDone++
		if w.expired {
			break
		}
	}
	close(done)
	return finish(0)
}

// panicSite extracts the first frame inside the code under test.
func watchdog(w *W, done chan struct{}, once *sync.Once, stall time.Duration, finish func(int) int) {
	last := w.curSeq.Load()
	lastChange := time.Now()
	t := time.NewTicker(2 * time.Second)
	defer t.Stop()
	for {
		select {
		case <-done:
			return
		case <-t.C:
			cur := w.curSeq.Load()
			if cur != last {
				last, lastChange = cur, time.Now()
				continue
			}
			if time.Since(lastChange) > stall {
				once.Do(func() {
					desc := "unknown"
					if f, ok := w.cur.Load().(func() string); ok && f != nil {
						desc = f()
					}
					w.res.Exhaustive = false
					w.Fail("no-progress", fmt.Sprintf("a single case made no progress for %v", stall), map[string]string{"kind": "stall", "in_flight": desc})
					os.Exit(finish(3))
				})
			}
		}
	}
}

func panicSite(stack string) string {
	lines := strings.Split(stack, "\n")
	for _, l := range lines {
		if strings.HasPrefix(l, "github.com/reactivego/ivg") {
			if i := strings.LastIndex(l, "("); i > 0 {
				l = l[:i]
			}
			return l
		}
	}
	return "harness"
}

func trimStack(s string) string {
	if len(s) > 3000 {
		return s[:3000]
	}
	return s
}

type knownFile struct {
	Findings []struct {
		Kind     string `json:"kind"` // "known" or "fixed"
		Property string `json:"property"`
		Key      string `json:"key"`
		What     string `json:"what"`
		Commit   string `json:"commit,omitempty"`
	} `json:"findings"`
}

func loadKnown() knownFile {
	var kf knownFile
	b, err := os.ReadFile(filepath.Join(Root, "known_findings.json"))
	if err == nil {
		json.Unmarshal(b, &kf)
	}
	return kf
}

func cmdCheck(args []string) int {
	if len(args) < 1 {
		fmt.Fprintln(os.Stderr, "usage: ivgmc check <Cxx> [-tier quick|thorough]")
		return 2
	}
	id := args[0]
	fs := flag.NewFlagSet("check", flag.ExitOnError)
	tier := fs.String("tier", "quick", "")
	workers := fs.Int("workers", 0, "")
	fs.Parse(args[1:])
	if *tier != "quick" && *tier != "thorough" {
		fmt.Fprintln(os.Stderr, "bad tier")
		return 2
	}
	c := Lookup(id)
	if c == nil {
		fmt.Fprintln(os.Stderr, "unknown property", id)
		return 2
	}
	start := time.Now()
	seed := seedFromEnv()
	units := c.Units(*tier)
	nw := *workers
	if nw <= 0 {
		nw = runtime.NumCPU()
		if nw > 16 {
			nw = 16
		}
	}
	if nw > units {
		nw = units
	}
	if c.Sequential {
		nw = 1
	}
	if nw < 1 {
		nw = 1
	}
	scratchBase := os.Getenv("VERIF_SCRATCH")
	if scratchBase == "" {
		scratchBase = "/var/tmp"
	}
	scratch, err := os.MkdirTemp(scratchBase, "ivgmc-")
	if err != nil {
		fmt.Fprintln(os.Stderr, "HARNESS-ERROR: scratch:", err)
		return 2
	}
	defer os.RemoveAll(scratch)

	os.WriteFile(filepath.Join(scratch, "claim"), []byte("0"), 0o644)
	self, _ := os.Executable()
	driver := self
	if c.WorkerBin != "" {
		alt := filepath.Join(filepath.Dir(self), c.WorkerBin+strings.TrimPrefix(filepath.Base(self), "ivgmc"))
		if _, err := os.Stat(alt); err != nil {
			fmt.Fprintf(RealStdout, "HARNESS-ERROR: worker binary %s missing (instrumented build failed; see .bin/build-inst.log)\n", alt)
			return 2
		}
		self = alt
	}
	_ = driver
	dl := time.Now().Add(horizon(*tier)).Unix()
	type wres struct {
		res    *Result
		err    string
		stderr string
	}
	results := make([]wres, nw)
	var wg sync.WaitGroup
	for i := 0; i < nw; i++ {
		wg.Add(1)
		go func(i int) {
			defer wg.Done()
			out := filepath.Join(scratch, fmt.Sprintf("w%d.json", i))
			cmd := exec.Command(self, "worker", "-prop", id, "-tier", *tier, "-idx", strconv.Itoa(i), "-n", strconv.Itoa(nw),
				"-out", out, "-seed", strconv.FormatInt(seed, 10), "-deadline", strconv.FormatInt(dl, 10), "-claim", filepath.Join(scratch, "claim"))
			gmp := "GOMAXPROCS=1"
			if c.Sequential {
				gmp = "GOMAXPROCS=" + strconv.Itoa(runtime.NumCPU())
			}
			cmd.Env = append(os.Environ(), gmp, "VERIF_SCRATCH_DIR="+scratch)
			var eb bytes.Buffer
			cmd.Stderr = &eb
			cmd.Stdout = &eb
			err := cmd.Run()
			b, rerr := os.ReadFile(out)
			if rerr != nil {
				results[i] = wres{err: fmt.Sprintf("worker %d produced no result (%v)", i, err), stderr: tail(eb.String(), 4000)}
				return
			}
			var r Result
			if jerr := json.Unmarshal(b, &r); jerr != nil {
				results[i] = wres{err: fmt.Sprintf("worker %d result unreadable: %v", i, jerr)}
				return
			}
			results[i] = wres{res: &r, stderr: tail(eb.String(), 2000)}
		}(i)
	}
	wg.Wait()

	// merge
	m := &Result{Exhaustive: true, Counters: map[string]int64{}}
	vio := map[string]*Violation{}
	var ntH, allH []uint64
	harness := ""
	for i, r := range results {
		if r.res == nil {
			// A worker that died without a result: hard crash of the process (fatal error,
			// out of memory, stack overflow).
			if c.CrashIsViolation {
				if v := attributeCrash(self, id, *tier, scratch, i, r.stderr); v != nil {
					if o, ok := vio[v.Key]; ok {
						o.Count++
					} else {
						vio[v.Key] = v
					}
					m.Exhaustive = false
					m.Caps = append(m.Caps, fmt.Sprintf("worker %d crashed; its remaining units were not explored", i))
					continue
				}
			}
			harness += r.err + "\n" + r.stderr + "\n"
			continue
		}
		x := r.res
		m.Evaluations += x.Evaluations
		m.States += x.States
		m.Transitions += x.Transitions
		m.Traces += x.Traces
		m.Skipped += x.Skipped
		m.UnitsDone += x.UnitsDone
		if x.MaxDepth > m.MaxDepth {
			m.MaxDepth = x.MaxDepth
		}
		m.Exhaustive = m.Exhaustive && x.Exhaustive
		m.Caps = append(m.Caps, x.Caps...)
		m.Notes = append(m.Notes, x.Notes...)
		m.HashCapped = m.HashCapped || x.HashCapped
		for k, v := range x.Counters {
			if strings.HasPrefix(k, "max_") {
				if v > m.Counters[k] {
					m.Counters[k] = v
				}
				continue
			}
			m.Counters[k] += v
		}
		if len(m.Samples) < 6 {
			m.Samples = append(m.Samples, x.Samples...)
		}
		for _, v := range x.Violations {
			if o, ok := vio[v.Key]; ok {
				o.Count += v.Count
				if len(v.Case) < len(o.Case) {
					o.Case, o.What, o.Alt = v.Case, v.What, v.Alt
				}
			} else {
				vio[v.Key] = v
			}
		}
		if x.HarnessErr != "" {
			harness += fmt.Sprintf("worker %d: %s\n", i, x.HarnessErr)
		}
		if x.HashFileNT != "" {
			ntH, _ = readHashes(x.HashFileNT, ntH)
			allH, _ = readHashes(x.HashFileAll, allH)
		}
	}
	m.DistinctNT = countDistinct(ntH)
	m.DistinctAll = countDistinct(allH)
	m.Notes = dedupStrings(m.Notes)
	if len(m.Caps) > 8 {
		m.Caps = append(m.Caps[:8], fmt.Sprintf("... %d more", len(m.Caps)-8))
	}
	if m.UnitsDone < units && m.Exhaustive {
		m.Exhaustive = false
		m.Caps = append(m.Caps, fmt.Sprintf("only %d of %d units completed", m.UnitsDone, units))
	}

	// classify violations
	known := loadKnown()
	var keys []string
	for k := range vio {
		keys = append(keys, k)
	}
	sort.Strings(keys)
	exit := 0
	nviol := 0
	var lines []string
	for _, k := range keys {
		v := vio[k]
		v.Property = id
		isKnown := false
		for _, f := range known.Findings {
			if f.Kind == "known" && f.Property == id && f.Key == v.Key {
				lines = append(lines, fmt.Sprintf("KNOWN-FINDING: property=%s %s [%s] (%d cases)", id, f.What, v.Key, v.Count))
				isKnown = true
				break
			}
		}
		if isKnown {
			continue
		}
		nviol++
		path := writeReplay(v)
		// confirm by replaying twice without the explorer
		// a report of the race detector is proof in itself (no false positives) and depends on the
		// timing of a free-running execution: it is not replay-confirmed
		if strings.HasPrefix(v.Key, "process-crash") {
			// confirmed by construction: the unit was re-run in a fresh process with a per-case
			// journal and crashed again on this case
		} else if c.Replay != nil && os.Getenv("VERIF_NO_CONFIRM") == "" && !strings.HasPrefix(v.Key, "data-race:") {
			ok1 := runReplay(self, path)
			ok2 := runReplay(self, path)
			if !(ok1 && ok2) && len(v.Alt) > 0 {
				// the failure depends on what the process did before: replay the case with its context
				os.Remove(path)
				v.Case, v.Alt = v.Alt, nil
				v.What += " [replayed with the calls that preceded it in the exploring process]"
				path = writeReplay(v)
				ok1 = runReplay(self, path)
				ok2 = runReplay(self, path)
			}
			if !(ok1 && ok2) {
				harness += fmt.Sprintf("violation %s did not reproduce deterministically on replay (%v,%v): %s\n", v.Key, ok1, ok2, v.What)
				continue
			}
		}
		lines = append(lines, fmt.Sprintf("VIOLATION property=%s replay=%s", id, path))
		lines = append(lines, fmt.Sprintf("  key=%s count=%d what=%s", v.Key, v.Count, oneLine(v.What, 600)))
		exit = 1
	}

	if harness == "" && c.Post != nil && exit == 0 {
		if s := c.Post(*tier, m); s != "" {
			harness = "vacuity guard: " + s
		}
	}
	wall := time.Since(start).Seconds()
	writeEvidence(c, *tier, seed, m, nviol, wall, units, nw)

	out := RealStdout
	fmt.Fprintf(out, "%s tier=%s units=%d workers=%d evaluations=%d states=%d transitions=%d traces=%d distinct_outcomes=%d distinct_nontrivial=%d exhaustive=%v wall=%.1fs\n",
		id, *tier, units, nw, m.Evaluations, m.States, m.Transitions, m.Traces, m.DistinctAll, m.DistinctNT, m.Exhaustive, wall)
	for _, c := range m.Caps {
		fmt.Fprintln(out, "  cap:", c)
	}
	for _, l := range lines {
		fmt.Fprintln(out, l)
	}
	if harness != "" {
		fmt.Fprintln(out, "HARNESS-ERROR:", strings.TrimSpace(harness))
		if exit == 0 {
			return 2
		}
	}
	return exit
}

// attributeCrash re-runs the unit that was in flight when worker i died, with a per-case
// journal, and returns a violation naming the crashing case (nil if it does not crash again).
func attributeCrash(self, id, tier, scratch string, i int, stderr string) *Violation {
	jb, err := os.ReadFile(filepath.Join(scratch, fmt.Sprintf("w%d.json.journal", i)))
	if err != nil {
		return nil
	}
	var unit int
	if _, err := fmt.Sscanf(string(jb), "U %d", &unit); err != nil {
		return nil
	}
	out := filepath.Join(scratch, fmt.Sprintf("crash%d.json", i))
	cmd := exec.Command(self, "worker", "-prop", id, "-tier", tier, "-unit", strconv.Itoa(unit), "-journalcases", "-out", out)
	cmd.Env = append(os.Environ(), "GOMAXPROCS=1", "VERIF_SCRATCH_DIR="+scratch)
	var eb bytes.Buffer
	cmd.Stderr = &eb
	cmd.Stdout = &eb
	cmd.Run()
	if _, err := os.Stat(out); err == nil {
		return nil // did not crash again
	}
	jb, err = os.ReadFile(out + ".journal")
	if err != nil {
		return nil
	}
	last := ""
	for _, l := range strings.Split(strings.TrimSpace(string(jb)), "\n") {
		if strings.HasPrefix(l, "C ") && !strings.HasPrefix(l, "C unit ") {
			last = l[2:]
		}
	}
	if last == "" {
		return nil
	}
	reason := "process crashed"
	es := eb.String()
	for _, l := range strings.Split(es, "\n") {
		if strings.HasPrefix(l, "fatal error:") || strings.HasPrefix(l, "runtime:") {
			reason = l
			break
		}
	}
	cs, _ := json.Marshal(map[string]string{"kind": "crash", "case": last, "unit": strconv.Itoa(unit)})
	return &Violation{Property: id, Key: "process-crash:" + reason, What: fmt.Sprintf("the process died (%s) while handling case %s; stderr tail: %s", reason, last, tail(es, 600)), Case: cs, Count: 1}
}

func dedupStrings(in []string) []string {
	seen := map[string]bool{}
	var out []string
	for _, s := range in {
		if !seen[s] {
			seen[s] = true
			out = append(out, s)
		}
	}
	return out
}

func oneLine(s string, n int) string {
	s = strings.ReplaceAll(s, "\n", " | ")
	if len(s) > n {
		s = s[:n] + "..."
	}
	return s
}

func tail(s string, n int) string {
	if len(s) > n {
		return s[len(s)-n:]
	}
	return s
}

func writeReplay(v *Violation) string {
	h := sha1.Sum(append([]byte(v.Key), v.Case...))
	name := fmt.Sprintf("%s-%x.json", v.Property, h[:6])
	dir := filepath.Join(Root, "replays")
	os.MkdirAll(dir, 0o755)
	path := filepath.Join(dir, name)
	b, _ := json.MarshalIndent(v, "", " ")
	os.WriteFile(path, b, 0o644)
	return path
}

func runReplay(self, path string) bool {
	cmd := exec.Command(self, "replay", path)
	cmd.Env = append(os.Environ(), "VERIF_STALL_S=30")
	done := make(chan error, 1)
	if err := cmd.Start(); err != nil {
		return false
	}
	go func() { done <- cmd.Wait() }()
	select {
	case err := <-done:
		if ee, ok := err.(*exec.ExitError); ok {
			return ee.ExitCode() == 1
		}
		return false
	case <-time.After(180 * time.Second):
		cmd.Process.Kill()
		return true // a hang reproduces as a hang
	}
}

func cmdReplay(args []string) int {
	if len(args) < 1 {
		fmt.Fprintln(os.Stderr, "usage: ivgmc replay <file>")
		return 2
	}
	b, err := os.ReadFile(args[0])
	if err != nil {
		fmt.Fprintln(os.Stderr, err)
		return 2
	}
	var v Violation
	if err := json.Unmarshal(b, &v); err != nil {
		fmt.Fprintln(os.Stderr, err)
		return 2
	}
	c := Lookup(v.Property)
	if c == nil || c.Replay == nil {
		fmt.Fprintln(os.Stderr, "no replay support for", v.Property)
		return 2
	}
	silenceStdout()
	w := NewW(v.Property, "quick", 0, time.Time{})
	w.Replaying = true
	func() {
		defer func() {
			if r := recover(); r != nil {
				w.Fail("panic:"+panicSite(string(debug.Stack())), fmt.Sprintf("panic: %v", r), nil)
			}
		}()
		if err := c.Replay(w, v.Case); err != nil {
			fmt.Fprintln(os.Stderr, "replay error:", err)
		}
	}()
	vs := w.Violations()
	if len(vs) == 0 {
		fmt.Fprintf(RealStdout, "replay %s: no violation (recorded key %s)\n", args[0], v.Key)
		return 0
	}
	for _, x := range vs {
		fmt.Fprintf(RealStdout, "VIOLATION property=%s replay=%s\n  key=%s what=%s\n", v.Property, args[0], x.Key, oneLine(x.What, 1000))
	}
	return 1
}

func writeEvidence(c *Check, tier string, seed int64, m *Result, nviol int, wall float64, units, workers int) {
	cov := map[string]any{
		"evaluations":                   m.Evaluations,
		"distinct_nontrivial":           m.DistinctNT,
		"distinct_outcomes":             m.DistinctAll,
		"rule":                          c.Rule,
		"samples":                       m.Samples,
		"exhaustive":                    m.Exhaustive,
		"units":                         units,
		"units_completed":               m.UnitsDone,
		"workers":                       workers,
		"skipped":                       m.Skipped,
		"traces_validated_against_impl": m.Traces,
	}
	if m.States > 0 {
		cov["states"] = m.States
	}
	if m.Transitions > 0 {
		cov["transitions"] = m.Transitions
	}
	if m.MaxDepth > 0 {
		cov["max_depth_completed"] = m.MaxDepth
	}
	if len(m.Caps) > 0 {
		cov["caps"] = m.Caps
	}
	if len(m.Notes) > 0 {
		cov["notes"] = m.Notes
	}
	if m.HashCapped {
		cov["distinct_counts_are_lower_bounds"] = true
	}
	if len(m.Counters) > 0 {
		cov["counters"] = m.Counters
	}
	if len(m.Samples) == 0 {
		cov["samples"] = []any{"(no sample recorded)"}
	}
	ev := map[string]any{
		"property_id": c.ID,
		"tier":        tier,
		"seed":        seed,
		"level":       c.Level,
		"coverage":    cov,
		"assumptions": c.Assumptions,
		"wall_s":      wall,
		"violations":  nviol,
	}
	b, _ := json.MarshalIndent(ev, "", " ")
	dir := filepath.Join(Root, "evidence")
	os.MkdirAll(dir, 0o755)
	os.WriteFile(filepath.Join(dir, c.ID+".json"), append(b, '\n'), 0o644)
}
