package mc

import (
	"os"
	"strconv"
	"strings"
	"syscall"
)

func dupFD(fd int) (int, error) { return syscall.Dup(fd) }
func dup2FD(from, to int) error { return syscall.Dup3(from, to, 0) }

// claimUnit atomically takes the next unit index from the shared counter file.
func claimUnit(path string) int {
	f, err := os.OpenFile(path, os.O_RDWR, 0)
	if err != nil {
		return 1 << 30
	}
	defer f.Close()
	if err := syscall.Flock(int(f.Fd()), syscall.LOCK_EX); err != nil {
		return 1 << 30
	}
	defer syscall.Flock(int(f.Fd()), syscall.LOCK_UN)
	var buf [32]byte
	n, _ := f.ReadAt(buf[:], 0)
	v, _ := strconv.Atoi(strings.TrimSpace(string(buf[:n])))
	f.Truncate(0)
	f.WriteAt([]byte(strconv.Itoa(v+1)), 0)
	return v
}

// setMemLimit bounds the address space of a worker (default 24 GiB, VERIF_RLIMIT_GB) so that a
// runaway allocation ends the worker instead of the machine.
func setMemLimit() {
	gb := uint64(24)
	if s := os.Getenv("VERIF_RLIMIT_GB"); s != "" {
		if v, err := strconv.Atoi(s); err == nil && v >= 0 {
			gb = uint64(v)
		}
	}
	if gb == 0 {
		return
	}
	lim := syscall.Rlimit{Cur: gb << 30, Max: gb << 30}
	syscall.Setrlimit(syscall.RLIMIT_AS, &lim)
}
