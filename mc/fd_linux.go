package mc

import "syscall"

func dupFD(fd int) (int, error) { return syscall.Dup(fd) }
func dup2FD(from, to int) error { return syscall.Dup3(from, to, 0) }
