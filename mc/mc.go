// Package mc is the common machinery of the ivg model-checking harness: check
// registry, process-sharded exhaustive enumeration, evidence and violation
// reporting. Every check is a finite, deterministic enumeration of "cases"
// (histories, byte strings, value tuples, schedules) that is cut into work
// units; units are distributed over worker processes (GOMAXPROCS=1 each).
package mc

import (
	"encoding/binary"
	"encoding/json"
	"fmt"
	"hash/fnv"
	"math"
	"os"
	"sort"
	"sync/atomic"
	"time"
)

// Check describes one property check.
type Check struct {
	ID          string
	Level       string // MANIFEST/EVIDENCE level category
	Rule        string // how cases are enumerated, what is non-trivial
	Assumptions []string
	// Units returns the number of independent work units of the tier.
	Units func(tier string) int
	// Run enumerates unit u exhaustively (unless w.Expired()).
	Run func(w *W, u int)
	// Replay re-executes one recorded case (the Case field of a violation).
	Replay func(w *W, data json.RawMessage) error
	// Post is evaluated by the parent on the merged result; a non-empty string
	// is a harness error (vacuity guard), never a property violation.
	Post func(tier string, m *Result) string
	// Sequential checks run all units in one process (they spawn their own
	// sub-processes, e.g. the scheduler build of C18).
	Sequential bool
	// WorkerBin, if set, names the binary (next to the driver) that runs the
	// workers of this check (the instrumented build for C18).
	WorkerBin string
	// CrashIsViolation: a worker process that dies (fatal error, out of memory, stack
	// overflow) is a violation of the property itself (C02); the driver then re-runs the
	// unit in flight with a per-case journal to name the input.
	CrashIsViolation bool
}

var registry = map[string]*Check{}

func Register(c *Check) {
	if _, dup := registry[c.ID]; dup {
		panic("duplicate check " + c.ID)
	}
	registry[c.ID] = c
}

func Lookup(id string) *Check { return registry[id] }

func IDs() []string {
	var ids []string
	for id := range registry {
		ids = append(ids, id)
	}
	sort.Strings(ids)
	return ids
}

// Violation is one failed oracle evaluation.
type Violation struct {
	Property string          `json:"property"`
	Key      string          `json:"key"`  // canonical class of the failure (known-findings match on it)
	What     string          `json:"what"` // human readable: expected vs observed
	Case     json.RawMessage `json:"case"` // replayable case
	Count    int64           `json:"count"`
	// Alt is the same case together with the context it was found in (the inputs that preceded it in
	// the same process, the batch it was part of). The driver replays Case first; only if that does
	// not fail in a fresh process — the failure depends on earlier calls — is Alt replayed and, if it
	// fails twice, written as the replay file.
	Alt json.RawMessage `json:"alt,omitempty"`
}

// Result is what a worker (or the merge of all workers) measured.
type Result struct {
	Evaluations int64            `json:"evaluations"`
	States      int64            `json:"states"`
	Transitions int64            `json:"transitions"`
	Traces      int64            `json:"traces"`
	Skipped     int64            `json:"skipped"`
	MaxDepth    int              `json:"max_depth"`
	Exhaustive  bool             `json:"exhaustive"`
	Caps        []string         `json:"caps,omitempty"`
	Samples     []any            `json:"samples,omitempty"`
	Violations  []*Violation     `json:"violations,omitempty"`
	Counters    map[string]int64 `json:"counters,omitempty"`
	Notes       []string         `json:"notes,omitempty"`
	HashFileNT  string           `json:"hash_file_nt,omitempty"`
	HashFileAll string           `json:"hash_file_all,omitempty"`
	HashCapped  bool             `json:"hash_capped,omitempty"`
	HarnessErr  string           `json:"harness_err,omitempty"`
	DistinctNT  int64            `json:"distinct_nt"`
	DistinctAll int64            `json:"distinct_all"`
	UnitsDone   int              `json:"units_done"`
}

const hashCap = 1 << 20

// W is the per-worker context handed to Check.Run.
type W struct {
	Prop      string
	Tier      string
	Seed      int64
	Thorough  bool
	res       Result
	nt        map[uint64]struct{}
	all       map[uint64]struct{}
	vio       map[string]*Violation
	deadline  time.Time
	tick      int
	expired   bool
	cur       atomic.Value // func() string describing the case in flight
	curSeq    atomic.Int64
	Unit      int
	Replaying bool
	journal   *os.File // per-case journal (crash attribution)
	alt       func() any
}

// JournalCase records the case about to run when the worker was started in
// journal mode (only after a crash of an earlier worker).
func (w *W) JournalCase(desc func() string) {
	if w.journal != nil {
		w.journal.WriteString("C " + desc() + "\n")
	}
}
func (w *W) Journaling() bool      { return w.journal != nil }
func (w *W) SetJournal(f *os.File) { w.journal = f }

func NewW(prop, tier string, seed int64, deadline time.Time) *W {
	w := &W{Prop: prop, Tier: tier, Seed: seed, Thorough: tier == "thorough", deadline: deadline}
	w.nt = map[uint64]struct{}{}
	w.all = map[uint64]struct{}{}
	w.vio = map[string]*Violation{}
	w.res.Exhaustive = true
	w.res.Counters = map[string]int64{}
	return w
}

// Scratch returns a worker whose results are thrown away (replay of the calls that precede a case).
func (w *W) Scratch() *W { return NewW(w.Prop, w.Tier, w.Seed, w.deadline) }

// Eval counts one executed case.
func (w *W) Eval() { w.res.Evaluations++; w.curSeq.Add(1) }

func (w *W) EvalN(n int64) { w.res.Evaluations += n; w.curSeq.Add(1) }

// Trace counts one execution of the implementation compared with the model.
func (w *W) Trace()                  { w.res.Traces++ }
func (w *W) State(n int64)           { w.res.States += n }
func (w *W) Transition(n int64)      { w.res.Transitions += n }
func (w *W) Skip()                   { w.res.Skipped++ }
func (w *W) Count(k string, n int64) { w.res.Counters[k] += n }

// CountMax keeps the maximum of n under key "max_"+k (merged by maximum).
func (w *W) CountMax(k string, n int64) {
	if n > w.res.Counters["max_"+k] {
		w.res.Counters["max_"+k] = n
	}
}
func (w *W) Depth(d int) {
	if d > w.res.MaxDepth {
		w.res.MaxDepth = d
	}
}
func (w *W) Note(s string) { w.res.Notes = append(w.res.Notes, s) }

// Outcome records the canonical hash of an observed outcome.
func (w *W) Outcome(h uint64, nontrivial bool) {
	if len(w.all) < hashCap {
		w.all[h] = struct{}{}
	} else {
		w.res.HashCapped = true
	}
	if nontrivial {
		if len(w.nt) < hashCap {
			w.nt[h] = struct{}{}
		} else {
			w.res.HashCapped = true
		}
	}
}

// Sample keeps a few of the actual cases explored.
func (w *W) Sample(v any) {
	if len(w.res.Samples) < 3 {
		w.res.Samples = append(w.res.Samples, v)
	}
}
func (w *W) WantSample() bool { return len(w.res.Samples) < 3 }

// InFlight registers a description of the case about to be executed, so that
// a hang or crash can name its input.
func (w *W) InFlight(f func() string) { w.cur.Store(f) }

// Expired reports whether the wall-clock horizon passed; the enumeration then
// stops and the result is marked non-exhaustive. It is a budget, never an oracle.
func (w *W) Expired() bool {
	if w.expired {
		return true
	}
	w.tick++
	if w.tick&0x3ff != 0 {
		return false
	}
	if !w.deadline.IsZero() && time.Now().After(w.deadline) {
		w.expired = true
		w.res.Exhaustive = false
		w.res.Caps = append(w.res.Caps, fmt.Sprintf("horizon reached in unit %d after %d evaluations", w.Unit, w.res.Evaluations))
	}
	return w.expired
}

// Cap records that part of the space was deliberately not enumerated.
func (w *W) Cap(s string) {
	w.res.Exhaustive = false
	w.res.Caps = append(w.res.Caps, s)
}

// Fail records a violation. key classifies the failure (oracle clause + input
// class); cs is the replayable case.
func (w *W) Fail(key, what string, cs any) {
	if v, ok := w.vio[key]; ok {
		v.Count++
		// keep the smallest of the first few cases as the counterexample
		if v.Count <= 64 {
			if raw, err := json.Marshal(cs); err == nil && len(raw) < len(v.Case) {
				v.Case, v.What = raw, what
				v.Alt = w.altCase()
			}
		}
		return
	}
	raw, err := json.Marshal(cs)
	if err != nil {
		raw, _ = json.Marshal(fmt.Sprintf("%#v", cs))
	}
	w.vio[key] = &Violation{Property: w.Prop, Key: key, What: what, Case: raw, Count: 1, Alt: w.altCase()}
}

// AltCase, when set by a check, supplies the case-with-context stored beside the case of a violation.
func (w *W) SetAltCase(f func() any) { w.alt = f }

func (w *W) altCase() json.RawMessage {
	if w.alt == nil {
		return nil
	}
	v := w.alt()
	if v == nil {
		return nil
	}
	raw, err := json.Marshal(v)
	if err != nil {
		return nil
	}
	return raw
}

func (w *W) Failed() bool { return len(w.vio) > 0 }
func (w *W) Violations() []*Violation {
	var keys []string
	for k := range w.vio {
		keys = append(keys, k)
	}
	sort.Strings(keys)
	var out []*Violation
	for _, k := range keys {
		out = append(out, w.vio[k])
	}
	return out
}

// HarnessError aborts the worker with a harness (not property) error.
func (w *W) HarnessError(format string, a ...any) {
	w.res.HarnessErr = fmt.Sprintf(format, a...)
}

func (w *W) Finish(hashDir string, idx int) (*Result, error) {
	w.res.Violations = w.Violations()
	w.res.DistinctNT = int64(len(w.nt))
	w.res.DistinctAll = int64(len(w.all))
	if hashDir != "" {
		w.res.HashFileNT = fmt.Sprintf("%s/nt-%d.bin", hashDir, idx)
		w.res.HashFileAll = fmt.Sprintf("%s/all-%d.bin", hashDir, idx)
		if err := writeHashes(w.res.HashFileNT, w.nt); err != nil {
			return nil, err
		}
		if err := writeHashes(w.res.HashFileAll, w.all); err != nil {
			return nil, err
		}
	}
	return &w.res, nil
}

func writeHashes(path string, m map[uint64]struct{}) error {
	buf := make([]byte, 0, 8*len(m))
	for h := range m {
		buf = binary.LittleEndian.AppendUint64(buf, h)
	}
	return os.WriteFile(path, buf, 0o644)
}

func readHashes(path string, dst []uint64) ([]uint64, error) {
	b, err := os.ReadFile(path)
	if err != nil {
		return dst, err
	}
	for i := 0; i+8 <= len(b); i += 8 {
		dst = append(dst, binary.LittleEndian.Uint64(b[i:]))
	}
	return dst, nil
}

func countDistinct(hs []uint64) int64 {
	if len(hs) == 0 {
		return 0
	}
	sort.Slice(hs, func(i, j int) bool { return hs[i] < hs[j] })
	n := int64(1)
	for i := 1; i < len(hs); i++ {
		if hs[i] != hs[i-1] {
			n++
		}
	}
	return n
}

// ---- hashing helpers -------------------------------------------------------

type Hasher struct{ h uint64 }

func NewHasher() Hasher { return Hasher{14695981039346656037} }
func (h *Hasher) Byte(b byte) {
	h.h ^= uint64(b)
	h.h *= 1099511628211
}
func (h *Hasher) Bytes(b []byte) {
	for _, x := range b {
		h.Byte(x)
	}
	h.Byte(0xfe)
}
func (h *Hasher) U32(u uint32) {
	h.Byte(byte(u))
	h.Byte(byte(u >> 8))
	h.Byte(byte(u >> 16))
	h.Byte(byte(u >> 24))
}
func (h *Hasher) U64(u uint64)  { h.U32(uint32(u)); h.U32(uint32(u >> 32)) }
func (h *Hasher) F32(f float32) { h.U32(math.Float32bits(f)) }
func (h *Hasher) F64(f float64) { h.U64(math.Float64bits(f)) }
func (h *Hasher) Str(s string) {
	for i := 0; i < len(s); i++ {
		h.Byte(s[i])
	}
	h.Byte(0xff)
}
func (h *Hasher) Bool(b bool) {
	if b {
		h.Byte(1)
	} else {
		h.Byte(0)
	}
}
func (h Hasher) Sum() uint64 { return h.h }

func HashString(s string) uint64 {
	f := fnv.New64a()
	f.Write([]byte(s))
	return f.Sum64()
}
