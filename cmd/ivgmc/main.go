// Command ivgmc is the driver of the ivg model-checking harness.
package main

import (
	"verif/mc"
	_ "verif/props"
)

func main() { mc.Main() }
