// Command ivgrace is the free-running pass attached to property C18: the same
// bodies as under the controlled scheduler, un-instrumented, built with
// -race, all started together in 16 goroutines. Between start and join the
// bodies share no synchronisation, so conflicting accesses are unordered by
// happens-before in every run.
package main

import (
	"fmt"
	"os"
	"strconv"
	"sync"

	"verif/bodies"
	"verif/gen"
)

func main() {
	iters := 40
	if len(os.Args) > 1 {
		if v, err := strconv.Atoi(os.Args[1]); err == nil {
			iters = v
		}
	}
	mk := func() *bodies.Shared {
		sh := bodies.NewShared()
		// more shared graphics: the testdata files
		for i, f := range gen.Corpus() {
			if i >= 10 {
				break
			}
			sh.Graphics = append(sh.Graphics, f.Data)
		}
		return sh
	}
	// the expected (solo) results come from a separate instance of the shared data, so
	// that option values and inputs of the concurrent phase are untouched before it starts
	soloSh := mk()
	sh := mk()
	first := sh
	ng := len(sh.Graphics)
	solo := map[string]string{}
	for bi, b := range bodies.Bodies {
		for g := 0; g < ng; g++ {
			solo[fmt.Sprint(bi, g)] = b.Run(soloSh, g)
		}
	}
	before := sh.Hash()
	total := 0
	for it := 0; it < iters; it++ {
		// a fresh instance of the shared data every round: first-use windows (lazily initialised
		// state behind option values or inputs) are raced again each time
		sh = mk()
		var wg sync.WaitGroup
		start := make(chan struct{})
		bad := make([]string, 16)
		for t := 0; t < 16; t++ {
			wg.Add(1)
			go func(t int) {
				defer wg.Done()
				<-start
				for k := 0; k < 6; k++ {
					// k == 0: every goroutine starts with the same body (maximal collision at first use)
					bi := (k*(t+1) + it) % len(bodies.Bodies)
					g := (t*7 + k*3 + it) % ng
					if k == 0 {
						g = it % ng
					}
					if r := bodies.Bodies[bi].Run(sh, g); r != solo[fmt.Sprint(bi, g)] {
						bad[t] = fmt.Sprintf("body %s graphic %d", bodies.Bodies[bi].Name, g)
					}
				}
			}(t)
		}
		close(start)
		wg.Wait()
		total += 16 * 6
		for _, b := range bad {
			if b != "" {
				fmt.Println("RESULT-MISMATCH", b)
				os.Exit(1)
			}
		}
	}
	if sh.Hash() != before || first.Hash() != before {
		fmt.Println("RESULT-MISMATCH shared inputs were modified")
		os.Exit(1)
	}
	fmt.Printf("race-pass ok iterations=%d\n", total)
}
