//go:build verifsched

// Package sched is the controlled (cooperative) scheduler of property C18:
// one goroutine per body, exactly one runnable at a time, hand-off at
// verifrt.Yield, depth-first enumeration of all schedules up to a preemption
// bound.
package sched

import (
	"fmt"
	"runtime/debug"

	"github.com/reactivego/ivg/verifrt"
)

// Dev is a deviation from the default schedule: at scheduling point Point
// take enabled-thread alternative Alt (>= 1).
type Dev struct {
	Point int `json:"point"`
	Alt   int `json:"alt"`
}

type thread struct {
	id     int
	body   func() string
	wake   chan struct{}
	done   bool
	result string
	pnc    string
}

// Exec is one controlled execution.
type Exec struct {
	threads   []*thread
	cur       int
	devs      []Dev
	di        int
	npoints   int
	Running   []uint8 // per point: thread running when the point was reached (255: none)
	NEnabled  []uint8 // per point: number of enabled threads
	Steps     int
	Switches  int
	OnSwitch  func(step int) // census check
	fin       chan struct{}
	TraceH    uint64
	Sites     []int32 // site of each point (only when KeepSites)
	KeepSites bool
	Diverged  string
}

func (e *Exec) enabledList(running int) []int {
	var l []int
	if running >= 0 && !e.threads[running].done {
		l = append(l, running)
	}
	for _, t := range e.threads {
		if t.id != running && !t.done {
			l = append(l, t.id)
		}
	}
	return l
}

// choose consumes a scheduling point and returns the thread to run next.
func (e *Exec) choose(running int, site int) int {
	en := e.enabledList(running)
	p := e.npoints
	e.npoints++
	r := uint8(255)
	if running >= 0 && !e.threads[running].done {
		r = uint8(running)
	}
	e.Running = append(e.Running, r)
	e.NEnabled = append(e.NEnabled, uint8(len(en)))
	if e.KeepSites {
		e.Sites = append(e.Sites, int32(site))
	}
	e.TraceH = (e.TraceH ^ uint64(uint32(site))<<8 ^ uint64(r)) * 1099511628211
	alt := 0
	if e.di < len(e.devs) && e.devs[e.di].Point == p {
		alt = e.devs[e.di].Alt
		e.di++
		if alt >= len(en) {
			e.Diverged = fmt.Sprintf("replay diverged: point %d has %d enabled threads, schedule asks for alternative %d", p, len(en), alt)
			alt = 0
		}
	}
	if len(en) == 0 {
		return -1
	}
	return en[alt]
}

func (e *Exec) yield(site int) {
	e.Steps++
	me := e.cur
	next := e.choose(me, site)
	if next != me {
		e.switchTo(me, next)
	}
}

func (e *Exec) switchTo(me, next int) {
	e.Switches++
	if e.OnSwitch != nil {
		e.OnSwitch(e.Steps)
	}
	e.cur = next
	e.threads[next].wake <- struct{}{}
	<-e.threads[me].wake
}

// Run executes the bodies under the schedule given by devs.
func Run(bodies []func() string, devs []Dev, onSwitch func(step int), keepSites bool) *Exec {
	e := &Exec{devs: devs, OnSwitch: onSwitch, fin: make(chan struct{}), KeepSites: keepSites}
	e.TraceH = 14695981039346656037
	for i, b := range bodies {
		e.threads = append(e.threads, &thread{id: i, body: b, wake: make(chan struct{})})
	}
	for _, t := range e.threads {
		go func(t *thread) {
			<-t.wake
			func() {
				defer func() {
					if r := recover(); r != nil {
						t.pnc = fmt.Sprintf("%v\n%s", r, debug.Stack())
					}
				}()
				t.result = t.body()
			}()
			t.done = true
			// thread end: free switch to any enabled thread
			next := e.choose(t.id, -1-t.id)
			if next < 0 {
				close(e.fin)
				return
			}
			e.Switches++
			if e.OnSwitch != nil {
				e.OnSwitch(e.Steps)
			}
			e.cur = next
			e.threads[next].wake <- struct{}{}
		}(t)
	}
	verifrt.Hook = e.yield
	first := e.choose(-1, -100)
	e.cur = first
	e.threads[first].wake <- struct{}{}
	<-e.fin
	verifrt.Hook = nil
	return e
}

func (e *Exec) Results() []string {
	r := make([]string, len(e.threads))
	for i, t := range e.threads {
		r[i] = t.result
	}
	return r
}

func (e *Exec) Panics() []string {
	var r []string
	for _, t := range e.threads {
		if t.pnc != "" {
			r = append(r, fmt.Sprintf("thread %d: %s", t.id, t.pnc))
		}
	}
	return r
}

// Explore enumerates every schedule with at most bound preemptions, depth
// first. visit is called for every execution; it returns false to stop.
// Only first-level deviations i with i%stripes == stripe are expanded (and the
// deviation-free schedule belongs to stripe 0), so that stripes partition the tree.
//
// occ bounds the preemption candidates: a thread is preempted at a site only at
// the first occ occurrences of that site in that thread's execution (occ <= 0:
// no bound). Free switches (at thread end) are never restricted.
func Explore(bodies func() []func() string, bound int, occ int, stripe, stripes int, onSwitch func(step int), visit func(devs []Dev, e *Exec) bool) {
	var rec func(devs []Dev, preempts int, level int) bool
	rec = func(devs []Dev, preempts int, level int) bool {
		e := Run(bodies(), devs, onSwitch, true)
		if level > 0 || stripe == 0 {
			if !visit(devs, e) {
				return false
			}
		}
		start := 0
		if len(devs) > 0 {
			start = devs[len(devs)-1].Point + 1
		}
		n := e.npoints
		running := append([]uint8(nil), e.Running...)
		nen := append([]uint8(nil), e.NEnabled...)
		sites := e.Sites
		seen := map[uint64]int{}
		for i := 0; i < n; i++ {
			k := 0
			if running[i] != 255 {
				key := uint64(running[i])<<32 | uint64(uint32(sites[i]))
				seen[key]++
				k = seen[key]
			}
			if i < start {
				continue
			}
			if level == 0 && i%stripes != stripe {
				continue
			}
			cost := 0
			if running[i] != 255 {
				cost = 1 // switching away from a runnable thread is a preemption
				if occ > 0 && k > occ {
					continue
				}
			}
			if preempts+cost > bound {
				continue
			}
			for alt := 1; alt < int(nen[i]); alt++ {
				nd := append(append(make([]Dev, 0, len(devs)+1), devs...), Dev{i, alt})
				if !rec(nd, preempts+cost, level+1) {
					return false
				}
			}
		}
		return true
	}
	rec(nil, 0, 0)
}
