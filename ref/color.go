package ref

import "image/color"

// Color kinds (spec "Colors").
const (
	KRGBA  = 0
	KPal   = 1
	KCReg  = 2
	KBlend = 3
)

// Color is a colour as it appears in the instruction stream.
type Color struct {
	Kind uint8
	D    color.RGBA // RGBA payload; index in R; blend (t,c0,c1) in R,G,B
}

var OpaqueBlack = color.RGBA{0, 0, 0, 0xff}

// Color1 decodes the 1-byte form.
func Color1(x byte) Color {
	switch {
	case x < 125:
		lvl := func(d byte) byte {
			switch d {
			case 0:
				return 0x00
			case 1:
				return 0x40
			case 2:
				return 0x80
			case 3:
				return 0xc0
			}
			return 0xff
		}
		return Color{KRGBA, color.RGBA{lvl(x / 25), lvl(x / 5 % 5), lvl(x % 5), 0xff}}
	case x == 125:
		return Color{KRGBA, color.RGBA{0xc0, 0xc0, 0xc0, 0xc0}}
	case x == 126:
		return Color{KRGBA, color.RGBA{0x80, 0x80, 0x80, 0x80}}
	case x == 127:
		return Color{KRGBA, color.RGBA{}}
	case x < 192:
		return Color{KPal, color.RGBA{R: x - 128}}
	}
	return Color{KCReg, color.RGBA{R: x - 192}}
}

func Color2(b0, b1 byte) Color {
	n := func(v byte) byte { return v<<4 | v }
	return Color{KRGBA, color.RGBA{n(b0 >> 4), n(b0 & 15), n(b1 >> 4), n(b1 & 15)}}
}
func Color3Direct(r, g, b byte) Color { return Color{KRGBA, color.RGBA{r, g, b, 0xff}} }
func Color4(r, g, b, a byte) Color    { return Color{KRGBA, color.RGBA{r, g, b, a}} }
func Color3Indirect(t, c0, c1 byte) Color {
	return Color{KBlend, color.RGBA{R: t, G: c0, B: c1}}
}

func Premul(c color.RGBA) bool { return c.R <= c.A && c.G <= c.A && c.B <= c.A }

// IsGradient: alpha 0 and blue >= 128.
func IsGradient(c color.RGBA) bool { return c.A == 0 && c.B >= 128 }

// Resolve evaluates a colour in the context of a palette and register file.
func (c Color) Resolve(pal, creg *[64]color.RGBA) color.RGBA {
	switch c.Kind {
	case KRGBA:
		return c.D
	case KPal:
		return pal[c.D.R&63]
	case KCReg:
		return creg[c.D.R&63]
	}
	t := uint32(c.D.R)
	a := Color1(c.D.G).Resolve(pal, creg)
	b := Color1(c.D.B).Resolve(pal, creg)
	mix := func(x, y uint8) uint8 { return uint8(((255-t)*uint32(x) + t*uint32(y) + 128) / 255) }
	return color.RGBA{mix(a.R, b.R), mix(a.G, b.G), mix(a.B, b.B), mix(a.A, b.A)}
}

// Short-form classifiers for direct colours (encoder-side oracles).
func Is1Byte(c color.RGBA) (byte, bool) {
	for x := 0; x < 128; x++ {
		if Color1(byte(x)).D == c {
			return byte(x), true
		}
	}
	return 0, false
}
func Is2Byte(c color.RGBA) bool {
	ok := func(v byte) bool { return v>>4 == v&15 }
	return ok(c.R) && ok(c.G) && ok(c.B) && ok(c.A)
}
