package ref

import (
	"image/color"
	"math"

	"github.com/reactivego/ivg"
	"verif/rec"
)

// Parsed is the reference reading of a byte string.
type Parsed struct {
	MetaOK        bool // magic and every metadata chunk valid: Reset is delivered
	OK            bool // the whole string is well formed
	Calls         []rec.Call
	VB            ivg.ViewBox
	Pal           [64]color.RGBA
	MetaLen       int    // bytes of magic + metadata
	Reason        string // why it was rejected
	MIDOrder      bool   // metadata would be valid but for repeated / descending MIDs
	EndsInPath    bool   // accepted, but the stream ends inside a path
	HasVB, HasPal bool
}

// Parser parses IconVG FFV0 byte strings as the specification defines them.
type Parser struct {
	// LenientMIDOrder accepts repeated / descending metadata identifiers (last
	// one wins), recording the fact in Parsed.MIDOrder.
	LenientMIDOrder bool
	NoPal           bool
	// OnNum, if set, is called for every number read after the metadata, in
	// stream order: kind 'n' natural, 'r' real, 'c' coordinate, 'z' zero-to-one;
	// n is the form length; nat is set for naturals.
	OnNum func(kind byte, n int, f float32, nat uint32)
	p     Parsed
}

func finite(f float32) bool { return !math.IsNaN(float64(f)) && !math.IsInf(float64(f), 0) }

var defaultVB = ivg.ViewBox{MinX: -32, MinY: -32, MaxX: 32, MaxY: 32}

func (ps *Parser) fail(reason string) *Parsed {
	ps.p.OK = false
	ps.p.Reason = reason
	return &ps.p
}

// Parse reads b. The returned value is reused by the next call.
func (ps *Parser) Parse(b []byte) *Parsed {
	p := &ps.p
	*p = Parsed{Calls: p.Calls[:0]}
	p.VB = defaultVB
	for i := range p.Pal {
		p.Pal[i] = OpaqueBlack
	}
	if len(b) < 4 || b[0] != 0x89 || b[1] != 0x49 || b[2] != 0x56 || b[3] != 0x47 {
		return ps.fail("magic")
	}
	pos := 4
	nChunks, n := Natural(b[pos:])
	if n == 0 {
		return ps.fail("chunk count")
	}
	pos += n
	prevMID := int64(-1)
	for ; nChunks > 0; nChunks-- {
		length, n := Natural(b[pos:])
		if n == 0 {
			return ps.fail("chunk length")
		}
		pos += n
		end := int64(pos) + int64(length)
		mid, n := Natural(b[pos:])
		if n == 0 {
			return ps.fail("mid")
		}
		pos += n
		if int64(mid) <= prevMID {
			if !ps.LenientMIDOrder {
				return ps.fail("mid order")
			}
			p.MIDOrder = true
		}
		prevMID = int64(mid)
		switch mid {
		case 0:
			var v [4]float32
			for i := range v {
				f, n := ps.num('c', b[pos:])
				if n == 0 {
					return ps.fail("viewbox number")
				}
				v[i] = f
				pos += n
			}
			if !(finite(v[0]) && finite(v[1]) && finite(v[2]) && finite(v[3])) || v[0] > v[2] || v[1] > v[3] {
				return ps.fail("viewbox invalid")
			}
			p.VB = ivg.ViewBox{MinX: v[0], MinY: v[1], MaxX: v[2], MaxY: v[3]}
			p.HasVB = true
		case 1:
			if pos >= len(b) {
				return ps.fail("palette header")
			}
			hdr := b[pos]
			pos++
			cnt, format := int(hdr&0x3f)+1, hdr>>6
			for i := range p.Pal {
				p.Pal[i] = OpaqueBlack
			}
			for i := 0; i < cnt; i++ {
				var c Color
				w := int(format) + 1
				if pos+w > len(b) {
					return ps.fail("palette colour")
				}
				switch format {
				case 0:
					c = Color1(b[pos])
				case 1:
					c = Color2(b[pos], b[pos+1])
				case 2:
					c = Color3Direct(b[pos], b[pos+1], b[pos+2])
				default:
					c = Color4(b[pos], b[pos+1], b[pos+2], b[pos+3])
				}
				pos += w
				if c.Kind == KRGBA && Premul(c.D) {
					p.Pal[i] = c.D
				} else {
					p.Pal[i] = OpaqueBlack
				}
			}
			p.HasPal = true
		default:
			return ps.fail("unknown mid")
		}
		if int64(pos) != end {
			return ps.fail("chunk length mismatch")
		}
	}
	p.MetaOK = true
	p.MetaLen = pos
	rc := rec.Call{M: rec.MReset, VB: p.VB}
	if !ps.NoPal {
		pal := p.Pal
		rc.Pal = &pal
	}
	p.Calls = append(p.Calls, rc)

	drawing := false
	for pos < len(b) {
		op := b[pos]
		pos++
		if !drawing {
			switch {
			case op < 0x40:
				p.Calls = append(p.Calls, rec.Call{M: rec.MSetCSel, Adj: op & 0x3f})
			case op < 0x80:
				p.Calls = append(p.Calls, rec.Call{M: rec.MSetNSel, Adj: op & 0x3f})
			case op < 0xa8:
				adj, incr := op&7, false
				if adj == 7 {
					adj, incr = 0, true
				}
				var c Color
				var w int
				switch (op - 0x80) >> 3 {
				case 0:
					w = 1
				case 1:
					w = 2
				case 2:
					w = 3
				case 3:
					w = 4
				case 4:
					w = 3
				}
				if pos+w > len(b) {
					return ps.fail("colour operand")
				}
				switch (op - 0x80) >> 3 {
				case 0:
					c = Color1(b[pos])
				case 1:
					c = Color2(b[pos], b[pos+1])
				case 2:
					c = Color3Direct(b[pos], b[pos+1], b[pos+2])
				case 3:
					c = Color4(b[pos], b[pos+1], b[pos+2], b[pos+3])
				case 4:
					c = Color3Indirect(b[pos], b[pos+1], b[pos+2])
				}
				pos += w
				p.Calls = append(p.Calls, rec.Call{M: rec.MSetCReg, Adj: adj, Incr: incr, C: rec.MakeColor(c.Kind, c.D)})
			case op < 0xc0:
				adj, incr := op&7, false
				if adj == 7 {
					adj, incr = 0, true
				}
				var f float32
				var n int
				switch (op - 0xa8) >> 3 {
				case 0:
					f, n = ps.num('r', b[pos:])
				case 1:
					f, n = ps.num('c', b[pos:])
				default:
					f, n = ps.num('z', b[pos:])
				}
				if n == 0 {
					return ps.fail("number operand")
				}
				pos += n
				p.Calls = append(p.Calls, rec.Call{M: rec.MSetNReg, Adj: adj, Incr: incr, A: [6]float32{f}})
			case op < 0xc7:
				x, n := ps.num('c', b[pos:])
				if n == 0 {
					return ps.fail("start path x")
				}
				pos += n
				y, n := ps.num('c', b[pos:])
				if n == 0 {
					return ps.fail("start path y")
				}
				pos += n
				p.Calls = append(p.Calls, rec.Call{M: rec.MStartPath, Adj: op & 7, A: [6]float32{x, y}})
				drawing = true
			case op == 0xc7:
				l0, n := ps.num('r', b[pos:])
				if n == 0 {
					return ps.fail("lod0")
				}
				pos += n
				l1, n := ps.num('r', b[pos:])
				if n == 0 {
					return ps.fail("lod1")
				}
				pos += n
				p.Calls = append(p.Calls, rec.Call{M: rec.MSetLOD, A: [6]float32{l0, l1}})
			default:
				return ps.fail("reserved styling opcode")
			}
			continue
		}
		// drawing mode
		var m rec.Method
		reps, nc := 1, 0
		switch {
		case op < 0x20:
			m, reps, nc = rec.MAbsL, int(op)+1, 2
		case op < 0x40:
			m, reps, nc = rec.MRelL, int(op-0x20)+1, 2
		case op < 0xe0:
			reps = int(op&15) + 1
			switch op >> 4 {
			case 4:
				m, nc = rec.MAbsT, 2
			case 5:
				m, nc = rec.MRelT, 2
			case 6:
				m, nc = rec.MAbsQ, 4
			case 7:
				m, nc = rec.MRelQ, 4
			case 8:
				m, nc = rec.MAbsS, 4
			case 9:
				m, nc = rec.MRelS, 4
			case 10:
				m, nc = rec.MAbsC, 6
			case 11:
				m, nc = rec.MRelC, 6
			case 12:
				m, nc = rec.MAbsA, -1
			case 13:
				m, nc = rec.MRelA, -1
			}
		case op == 0xe1:
			p.Calls = append(p.Calls, rec.Call{M: rec.MEndPath})
			drawing = false
			continue
		case op == 0xe2:
			m, nc = rec.MAbsMove, 2
		case op == 0xe3:
			m, nc = rec.MRelMove, 2
		case op == 0xe6:
			m, nc = rec.MAbsH, 1
		case op == 0xe7:
			m, nc = rec.MRelH, 1
		case op == 0xe8:
			m, nc = rec.MAbsV, 1
		case op == 0xe9:
			m, nc = rec.MRelV, 1
		default:
			return ps.fail("reserved drawing opcode")
		}
		for r := 0; r < reps; r++ {
			c := rec.Call{M: m}
			if nc >= 0 {
				for i := 0; i < nc; i++ {
					f, n := ps.num('c', b[pos:])
					if n == 0 {
						return ps.fail("coordinate")
					}
					pos += n
					c.A[i] = f
				}
			} else {
				for i := 0; i < 2; i++ {
					f, n := ps.num('c', b[pos:])
					if n == 0 {
						return ps.fail("arc radius")
					}
					pos += n
					c.A[i] = f
				}
				f, n := ps.num('z', b[pos:])
				if n == 0 {
					return ps.fail("arc angle")
				}
				pos += n
				c.A[2] = f
				fl, n := ps.nat(b[pos:])
				if n == 0 {
					return ps.fail("arc flags")
				}
				pos += n
				c.LA, c.SW = fl&1 != 0, fl&2 != 0
				for i := 3; i < 5; i++ {
					f, n := ps.num('c', b[pos:])
					if n == 0 {
						return ps.fail("arc end")
					}
					pos += n
					c.A[i] = f
				}
			}
			p.Calls = append(p.Calls, c)
		}
	}
	p.OK = true
	p.EndsInPath = drawing
	return p
}

func (ps *Parser) num(kind byte, b []byte) (float32, int) {
	var f float32
	var n int
	switch kind {
	case 'r':
		f, n = Real(b)
	case 'c':
		f, n = Coord(b)
	default:
		f, n = ZeroToOne(b)
	}
	if n != 0 && ps.OnNum != nil {
		ps.OnNum(kind, n, f, 0)
	}
	return f, n
}

func (ps *Parser) nat(b []byte) (uint32, int) {
	u, n := Natural(b)
	if n != 0 && ps.OnNum != nil {
		ps.OnNum('n', n, 0, u)
	}
	return u, n
}
