package ref

import (
	"image"
	"math"

	"github.com/reactivego/ivg"
)

// Map is the affine map taking the viewBox onto a target rectangle of the
// given size (origin at 0,0 in rasteriser space): independent x and y scale.
type Map struct {
	SX, SY float64 // scale
	OX, OY float64 // viewBox minimum
}

func NewMap(vb ivg.ViewBox, r image.Rectangle) Map {
	return Map{
		SX: float64(r.Dx()) / (float64(vb.MaxX) - float64(vb.MinX)),
		SY: float64(r.Dy()) / (float64(vb.MaxY) - float64(vb.MinY)),
		OX: float64(vb.MinX), OY: float64(vb.MinY),
	}
}

func (m Map) AbsX(x float64) float64 { return (x - m.OX) * m.SX }
func (m Map) AbsY(y float64) float64 { return (y - m.OY) * m.SY }
func (m Map) RelX(x float64) float64 { return x * m.SX }
func (m Map) RelY(y float64) float64 { return y * m.SY }
func (m Map) UnX(px float64) float64 { return px/m.SX + m.OX }
func (m Map) UnY(py float64) float64 { return py/m.SY + m.OY }

// Arc is the centre parameterisation of an SVG elliptical arc (SVG 1.1
// implementation notes F.6.5/F.6.6), computed independently of /repo.
type Arc struct {
	CX, CY       float64
	RX, RY       float64 // possibly scaled up
	Phi          float64 // radians
	Theta1       float64
	DTheta       float64
	Scaled       bool
	Degenerate   bool // flags do not determine the arc (coincident end points)
	NearHalfTurn bool
	Lambda       float64 // radii check value: > 1 means the radii are scaled up
}

// ArcCenter converts from end-point to centre parameterisation.
func ArcCenter(x1, y1, x2, y2, rx, ry, phi float64, large, sweep bool) Arc {
	a := Arc{Phi: phi}
	rx, ry = math.Abs(rx), math.Abs(ry)
	c, s := math.Cos(phi), math.Sin(phi)
	dx, dy := (x1-x2)/2, (y1-y2)/2
	xp := c*dx + s*dy
	yp := -s*dx + c*dy
	if dx == 0 && dy == 0 {
		a.Degenerate = true
		return a
	}
	lam := xp*xp/(rx*rx) + yp*yp/(ry*ry)
	a.Lambda = lam
	if lam > 1 {
		k := math.Sqrt(lam)
		rx, ry = rx*k, ry*k
		a.Scaled = true
	}
	num := rx*rx*ry*ry - rx*rx*yp*yp - ry*ry*xp*xp
	den := rx*rx*yp*yp + ry*ry*xp*xp
	co := 0.0
	if num > 0 {
		co = math.Sqrt(num / den)
	}
	if large == sweep {
		co = -co
	}
	cxp := co * rx * yp / ry
	cyp := -co * ry * xp / rx
	a.CX = c*cxp - s*cyp + (x1+x2)/2
	a.CY = s*cxp + c*cyp + (y1+y2)/2
	a.RX, a.RY = rx, ry
	ang := func(ux, uy, vx, vy float64) float64 {
		return math.Atan2(ux*vy-uy*vx, ux*vx+uy*vy)
	}
	ux, uy := (xp-cxp)/rx, (yp-cyp)/ry
	vx, vy := (-xp-cxp)/rx, (-yp-cyp)/ry
	a.Theta1 = ang(1, 0, ux, uy)
	d := ang(ux, uy, vx, vy)
	if !sweep && d > 0 {
		d -= 2 * math.Pi
	} else if sweep && d < 0 {
		d += 2 * math.Pi
	}
	a.DTheta = d
	if math.Abs(math.Abs(d)-math.Pi) < 1e-6 {
		a.NearHalfTurn = true
	}
	return a
}

// OnEllipse returns the relative distance of (x,y) from the ellipse of a:
// |r-1| where r is the normalised radius of the point.
func (a Arc) OnEllipse(x, y float64) float64 {
	c, s := math.Cos(a.Phi), math.Sin(a.Phi)
	dx, dy := x-a.CX, y-a.CY
	u := (c*dx + s*dy) / a.RX
	v := (-s*dx + c*dy) / a.RY
	return math.Abs(math.Hypot(u, v) - 1)
}

// AngleOf returns the ellipse parameter angle of (x,y).
func (a Arc) AngleOf(x, y float64) float64 {
	c, s := math.Cos(a.Phi), math.Sin(a.Phi)
	dx, dy := x-a.CX, y-a.CY
	u := (c*dx + s*dy) / a.RX
	v := (-s*dx + c*dy) / a.RY
	return math.Atan2(v, u)
}
