package ref

import (
	"image/color"
	"math"
)

// SpreadOffset maps a raw gradient offset through the spread mode. ok=false
// means "transparent black" (spread none outside [0,1]).
func SpreadOffset(spread int, o float64) (float64, bool) {
	if o >= 0 && o <= 1 {
		return o, true
	}
	switch spread {
	case 0:
		return 0, false
	case 1:
		if o < 0 {
			return 0, true
		}
		return 1, true
	case 2: // reflect: triangle wave of period 2, value 1 at odd integers
		m := math.Mod(o, 2)
		if m < 0 {
			m += 2
		}
		if m > 1 {
			m = 2 - m
		}
		return m, true
	}
	return o - math.Floor(o), true // repeat: fractional part
}

// GradColor interpolates the premultiplied 16-bit stop colours at offset o
// (already spread-mapped). exactStop reports that o is exactly a stop offset
// or outside the stop range, where the colour is exactly a stop colour.
func GradColor(stops []Stop, o float64) (c [4]float64, exactStop bool) {
	c16 := func(s color.RGBA) [4]float64 {
		return [4]float64{float64(s.R) * 257, float64(s.G) * 257, float64(s.B) * 257, float64(s.A) * 257}
	}
	if o <= stops[0].Offset {
		return c16(stops[0].Color), true
	}
	last := stops[len(stops)-1]
	if o >= last.Offset {
		return c16(last.Color), true
	}
	for i := 0; i+1 < len(stops); i++ {
		a, b := stops[i], stops[i+1]
		if o >= a.Offset && o <= b.Offset {
			if o == a.Offset {
				return c16(a.Color), true
			}
			if o == b.Offset {
				return c16(b.Color), true
			}
			t := (o - a.Offset) / (b.Offset - a.Offset)
			ca, cb := c16(a.Color), c16(b.Color)
			for k := 0; k < 4; k++ {
				c[k] = ca[k] + t*(cb[k]-ca[k])
			}
			return c, false
		}
	}
	return c16(last.Color), true
}

// NearDiscontinuity reports whether offset o is within eps of a discontinuity
// of the spread mode (none: 0 and 1; repeat: every integer).
func NearDiscontinuity(spread int, o, eps float64) bool {
	switch spread {
	case 0:
		return math.Abs(o) < eps || math.Abs(o-1) < eps
	case 3:
		return math.Abs(o-math.Round(o)) < eps
	}
	return false
}
