// Package ref holds the reference models of the harness. They are written from
// spec/iconvg-spec-v0.md and share no tables or helpers with /repo.
package ref

import (
	"math"
	"math/big"
)

// Natural decodes a natural number (spec "Natural Numbers"). n == 0 means the
// number is cut short by the end of input.
func Natural(b []byte) (u uint32, n int) {
	if len(b) == 0 {
		return 0, 0
	}
	switch {
	case b[0]&1 == 0:
		return uint32(b[0] >> 1), 1
	case b[0]&2 == 0:
		if len(b) < 2 {
			return 0, 0
		}
		return (uint32(b[0]) | uint32(b[1])<<8) >> 2, 2
	default:
		if len(b) < 4 {
			return 0, 0
		}
		return (uint32(b[0]) | uint32(b[1])<<8 | uint32(b[2])<<16 | uint32(b[3])<<24) >> 2, 4
	}
}

// Real decodes a real number.
func Real(b []byte) (float32, int) {
	u, n := Natural(b)
	switch n {
	case 0:
		return 0, 0
	case 4:
		return math.Float32frombits(u << 2), 4
	}
	return float32(u), n // u < 2^14: exact
}

// Coord decodes a coordinate number: 1 byte: R-64; 2 bytes: R/64-128.
func Coord(b []byte) (float32, int) {
	u, n := Natural(b)
	switch n {
	case 0:
		return 0, 0
	case 1:
		return float32(int(u) - 64), 1
	case 2:
		return float32(float64(int(u)-128*64) / 64), 2 // exact in float32
	}
	return math.Float32frombits(u << 2), 4
}

// ZeroToOne decodes a zero-to-one number: 1 byte: R/120; 2 bytes: R/15120,
// correctly rounded to float32.
func ZeroToOne(b []byte) (float32, int) {
	u, n := Natural(b)
	switch n {
	case 0:
		return 0, 0
	case 1:
		return ratToF32(int64(u), 120), 1
	case 2:
		return ratToF32(int64(u), 15120), 2
	}
	return math.Float32frombits(u << 2), 4
}

// ratToF32 returns p/q correctly rounded (nearest even) to float32.
func ratToF32(p, q int64) float32 {
	f, _ := new(big.Rat).SetFrac64(p, q).Float32()
	return f
}

// ---- classifiers used by the encoder-side oracles (C01, C08) ---------------

// RealShortLen returns 1 or 2 if f is an integer representable in the 1- or
// 2-byte real form, else 4.
func RealShortLen(f float32) int {
	if f != f || math.IsInf(float64(f), 0) {
		return 4
	}
	if f < 0 || f != float32(math.Trunc(float64(f))) {
		return 4
	}
	if f == 0 && math.Signbit(float64(f)) {
		// -0 is numerically equal to 0; the short form is allowed
		return 1
	}
	switch {
	case f < 128:
		return 1
	case f < 16384:
		return 2
	}
	return 4
}

// CoordShortLen returns the length of the shortest exact coordinate form.
func CoordShortLen(f float32) int {
	if f != f || math.IsInf(float64(f), 0) {
		return 4
	}
	d := float64(f)
	if d == math.Trunc(d) && d >= -64 && d < 64 {
		return 1
	}
	if d >= -128 && d < 128 {
		if s := d * 64; s == math.Trunc(s) {
			return 2
		}
	}
	return 4
}

// ZeroToOneShortLen returns the length of the shortest exact zero-to-one form
// of f, where "exact" means that the form decodes to f bit for bit.
func ZeroToOneShortLen(f float32) int {
	if f != f || f < 0 || f >= 2 {
		return 4
	}
	// candidates: k/120 for k<128, k/15120 for k<16384
	k := math.Round(float64(f) * 120)
	if k >= 0 && k < 128 && ratToF32(int64(k), 120) == f {
		return 1
	}
	k = math.Round(float64(f) * 15120)
	if k >= 0 && k < 16384 && ratToF32(int64(k), 15120) == f {
		return 2
	}
	return 4
}

// NaturalLen is the length of the shortest natural form.
func NaturalLen(u uint32) int {
	switch {
	case u < 1<<7:
		return 1
	case u < 1<<14:
		return 2
	}
	return 4
}

// Nearest64 reports whether got is a multiple of 1/64 nearest to v (exact
// ties may go either way). v must be finite.
func Nearest64(v, got float32) bool {
	if !finite(v) || !finite(got) {
		return false
	}
	x := new(big.Rat).SetFloat64(float64(v))
	g := new(big.Rat).SetFloat64(float64(got))
	s := new(big.Rat).Mul(g, big.NewRat(64, 1))
	if !s.IsInt() {
		return false
	}
	d := new(big.Rat).Sub(x, g)
	d.Abs(d)
	return d.Cmp(big.NewRat(1, 128)) <= 0
}

// UlpDiff30 returns the distance between a and b in units of the last place
// of float32 (same-sign finite values), or a huge number.
func UlpDiff(a, b float32) int64 {
	ua, ub := math.Float32bits(a), math.Float32bits(b)
	if (ua^ub)&0x80000000 != 0 {
		if a == 0 && b == 0 {
			return 0
		}
		return 1 << 40
	}
	d := int64(ua&0x7fffffff) - int64(ub&0x7fffffff)
	if d < 0 {
		d = -d
	}
	return d
}
