package ref

import (
	"image/color"
	"math"
)

// VM is the FFV0 virtual machine as the specification describes it.
type VM struct {
	CReg [64]color.RGBA
	NReg [64]float32
	CSel uint8
	NSel uint8
	LOD0 float32
	LOD1 float32
	Pal  [64]color.RGBA
}

func (v *VM) Reset(pal [64]color.RGBA) {
	*v = VM{Pal: pal, CReg: pal, LOD1: float32(math.Inf(1))}
}
func (v *VM) SetCSel(s uint8) { v.CSel = s & 63 }
func (v *VM) SetNSel(s uint8) { v.NSel = s & 63 }
func (v *VM) SetCReg(adj uint8, incr bool, c Color) {
	v.CReg[(v.CSel-adj)&63] = c.Resolve(&v.Pal, &v.CReg)
	if incr {
		v.CSel = (v.CSel + 1) & 63
	}
}
func (v *VM) SetNReg(adj uint8, incr bool, f float32) {
	v.NReg[(v.NSel-adj)&63] = f
	if incr {
		v.NSel = (v.NSel + 1) & 63
	}
}
func (v *VM) SetLOD(a, b float32) { v.LOD0, v.LOD1 = a, b }

// PaintKind classifies what a path started now is filled with.
type PaintKind int

const (
	PaintNone PaintKind = iota // no rasteriser activity at all
	PaintFlat
	PaintGradient
	PaintUnjudged // NSTOPS < 2: neither the specification nor C04 defines it
)

type Stop struct {
	Offset float64
	Color  color.RGBA
}

type Paint struct {
	Kind   PaintKind
	Flat   color.RGBA
	Shape  int // 0 linear, 1 radial
	Spread int
	Stops  []Stop
	Matrix [6]float32 // viewBox -> gradient space, NREG[NBASE-6..NBASE-1]
	Why    string
}

// StartPath returns the paint of a path started with the given ADJ on a
// raster of height h.
func (v *VM) StartPath(adj uint8, h int) Paint {
	c := v.CReg[(v.CSel-adj)&63]
	p := v.classify(c)
	H := float32(h)
	if !(v.LOD0 <= H && H < v.LOD1) {
		if p.Kind != PaintUnjudged {
			return Paint{Kind: PaintNone, Why: "outside the level-of-detail range"}
		}
		return Paint{Kind: PaintNone, Why: "outside the level-of-detail range"}
	}
	return p
}

func (v *VM) classify(c color.RGBA) Paint {
	switch {
	case Premul(c):
		if c.A == 0 {
			return Paint{Kind: PaintNone, Why: "fully transparent"}
		}
		return Paint{Kind: PaintFlat, Flat: c}
	case IsGradient(c):
		nstops := int(c.R & 63)
		cbase, nbase := c.G&63, c.B&63
		p := Paint{Kind: PaintGradient, Shape: int(c.B>>6) & 1, Spread: int(c.G >> 6)}
		prev := math.Inf(-1)
		for i := 0; i < nstops; i++ {
			sc := v.CReg[(cbase+uint8(i))&63]
			if !Premul(sc) {
				return Paint{Kind: PaintNone, Why: "gradient stop colour not premultiplied"}
			}
			o := float64(v.NReg[(nbase+uint8(i))&63])
			if !(o >= 0 && o <= 1) {
				return Paint{Kind: PaintNone, Why: "gradient stop offset outside [0,1]"}
			}
			if !(o > prev) {
				return Paint{Kind: PaintNone, Why: "gradient stop offsets not strictly increasing"}
			}
			prev = o
			p.Stops = append(p.Stops, Stop{o, sc})
		}
		if nstops < 2 {
			return Paint{Kind: PaintUnjudged, Why: "fewer than two stops"}
		}
		for i := 0; i < 6; i++ {
			p.Matrix[i] = v.NReg[(nbase-6+uint8(i))&63]
		}
		return p
	}
	return Paint{Kind: PaintNone, Why: "non-premultiplied non-gradient colour"}
}
