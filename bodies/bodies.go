// Package bodies holds the harness bodies of property C18: independent
// pipelines that share only read-only inputs (one source slice per graphic, one
// palette, one option slice and the package-level defaults of ivg). The same
// bodies are run under the controlled scheduler (instrumented build) and,
// un-instrumented, free-running under the race detector.
package bodies

import (
	"crypto/sha1"
	"fmt"
	"image"
	"image/color"
	"image/draw"
	"math"

	"github.com/reactivego/ivg"
	"github.com/reactivego/ivg/decode"
	"github.com/reactivego/ivg/encode"
	"github.com/reactivego/ivg/generate"
	"github.com/reactivego/ivg/mdicons"
	"github.com/reactivego/ivg/raster/vec"
	"github.com/reactivego/ivg/render"
	"golang.org/x/image/math/f32"
	"verif/rec"
)

// Shared is the read-only data every body may touch.
type Shared struct {
	Graphics [][]byte
	Palette  [64]color.RGBA
	Options  []decode.DecodeOption
	// Stops: a stop list shared by every caller of the gradient helpers; its offsets are not in
	// increasing order (what that paints is the renderer's business - the list is an input)
	Stops    []generate.GradientStop
	PathData string
}

// NewShared builds the three tiny graphics (blank; one flat path with a
// repeated relative verb; one gradient path), the shared palette and options.
func NewShared() *Shared {
	s := &Shared{PathData: "M4 4h10v10l-3 2-4-1z"}
	for i := range s.Palette {
		s.Palette[i] = color.RGBA{uint8(i), uint8(2 * i), uint8(3 * i), 0xff}
	}
	// nonsensical entries: the shared option value must be sanitised per decode, not in place
	s.Palette[5] = color.RGBA{0x90, 0x00, 0x00, 0x10}
	s.Palette[9] = color.RGBA{0x02, 0x4a, 0x8a, 0x00}
	{
		var e encode.Encoder
		b, _ := e.Bytes()
		s.Graphics = append(s.Graphics, append([]byte(nil), b...))
	}
	{
		var e encode.Encoder
		e.Reset(ivg.ViewBox{MinX: -24, MinY: -24, MaxX: 24, MaxY: 24}, ivg.DefaultPalette)
		e.SetCReg(0, false, ivg.PaletteIndexColor(2))
		e.StartPath(0, -8, -8)
		e.RelLineTo(16, 0)
		e.RelLineTo(0, 16)
		e.RelLineTo(-16, 3)
		e.ClosePathEndPath()
		b, _ := e.Bytes()
		s.Graphics = append(s.Graphics, append([]byte(nil), b...))
	}
	{
		var e encode.Encoder
		var g generate.Generator
		g.SetDestination(&e)
		g.SetLinearGradient(-8, 0, 8, 0, generate.GradientSpreadReflect, []generate.GradientStop{
			{Offset: 0, Color: color.RGBA{0xff, 0, 0, 0xff}}, {Offset: 1, Color: color.RGBA{0, 0, 0xff, 0xff}}})
		g.StartPath(0, -8, -8)
		g.AbsHLineTo(8)
		g.AbsArcTo(8, 8, 0, false, true, -8, 8)
		g.RelArcTo(5, 3, 0.125, true, false, 4, -3)
		g.AbsArcTo(4, 6, 0.3, false, false, -8, -8)
		g.ClosePathEndPath()
		b, _ := e.Bytes()
		s.Graphics = append(s.Graphics, append([]byte(nil), b...))
	}
	s.Stops = []generate.GradientStop{{Offset: 0.75, Color: color.RGBA{0xff, 0, 0, 0xff}}, {Offset: 0.25, Color: color.Gray{0x80}}, {Offset: 1, Color: color.RGBA{0, 0, 0x40, 0x40}}, {Offset: 0, Color: color.NRGBA{0, 0xff, 0, 0x80}}}
	// a prefix of a longer list: the slice the decoders are handed has spare capacity
	all := make([]decode.DecodeOption, 2, 5)
	all[0], all[1] = decode.WithPalette(s.Palette), decode.WithColorAt(2, color.NRGBA{0x80, 0x40, 0x20, 0x80})
	s.Options = all
	return s
}

// Hash returns a digest of the shared inputs (they must never change).
func (s *Shared) Hash() string {
	h := sha1.New()
	for _, g := range s.Graphics {
		h.Write(g)
		h.Write([]byte{0xff})
	}
	for _, c := range s.Palette {
		h.Write([]byte{c.R, c.G, c.B, c.A})
	}
	h.Write([]byte(s.PathData))
	return fmt.Sprintf("%x", h.Sum(nil))
}

// Body is one pipeline; it returns a digest of everything it produced.
type Body struct {
	Name string
	Run  func(s *Shared, g int) string
}

func digest(parts ...interface{}) string {
	h := sha1.New()
	for _, p := range parts {
		fmt.Fprintf(h, "%v|", p)
	}
	return fmt.Sprintf("%x", h.Sum(nil)[:10])
}

var Bodies = []Body{
	{"decode->render", func(s *Shared, g int) string {
		var z render.Renderer
		var ras rec.Raster
		z.SetRasterizer(&ras, image.Rect(0, 0, 24, 32))
		err := decode.Decode(&z, s.Graphics[g], s.Options...)
		return digest(err, rec.RCallsString(ras.Calls))
	}},
	{"transcode", func(s *Shared, g int) string {
		var e encode.Encoder
		err := decode.Decode(&e, s.Graphics[g])
		b, err2 := e.Bytes()
		return digest(err, err2, fmt.Sprintf("%x", b))
	}},
	{"generate->encode", func(s *Shared, g int) string {
		var e encode.Encoder
		var gen generate.Generator
		gen.SetDestination(&e)
		gen.Reset(ivg.DefaultViewBox, s.Palette)
		err := gen.SetCircularGradient(0, 0, 8, 0, generate.GradientSpreadPad, []generate.GradientStop{
			{Offset: 0, Color: color.Gray{0x20}}, {Offset: 0.5, Color: color.RGBA{0x80, 0, 0, 0x80}}, {Offset: 1, Color: color.NRGBA{0, 0xff, 0, 0x40}}})
		err4 := gen.SetLinearGradient(-3, 0, 5, 1, generate.GradientSpreadRepeat, s.Stops)
		gen.SetTransform(generate.Scale(2, 2), generate.Translate(-32, -32))
		err2 := gen.SetPathData("M4,4 h10 v10 l-3,2 -4,-1z", 0)
		b, err3 := e.Bytes()
		return digest(err, err2, err3, err4, fmt.Sprintf("%x", b))
	}},
	{"disassemble", func(s *Shared, g int) string {
		t, err := decode.Disassemble(s.Graphics[g])
		return digest(err, string(t))
	}},
	{"viewbox+helpers", func(s *Shared, g int) string {
		vb, err := decode.DecodeViewBox(s.Graphics[g])
		a, b, c, d := vb.AspectMeet(40, 100, ivg.Mid, ivg.Max)
		pal := s.Palette
		r1 := ivg.BlendColor(0x40, 0x82, 0xc1).Resolve(&s.Palette, &pal)
		r2 := ivg.DecodeColor1(0x30)
		x, ok := ivg.RGBAColor(color.RGBA{0x40, 0x80, 0xc0, 0xff}).Encode1()
		dm := ivg.DefaultMetadata
		return digest(vb, err, a, b, c, d, r1, r2, x, ok, dm.ViewBox, ivg.DefaultPalette[63], ivg.MagicBytes, math.Float32bits(vb.MinX))
	}},
	{"generate->render pixels", func(s *Shared, g int) string {
		img := image.NewRGBA(image.Rect(0, 0, 12, 10))
		vz := vec.NewRasterizer(img)
		vz.DrawOp = draw.Src
		var z render.Renderer
		z.SetRasterizer(vz, image.Rect(1, 1, 11, 9))
		var gen generate.Generator
		gen.SetDestination(&z)
		gen.Reset(ivg.DefaultViewBox, s.Palette)
		err := gen.SetEllipticalGradient(0, 0, 16, 0, 0, 8, generate.GradientSpreadRepeat, []generate.GradientStop{
			{Offset: 0, Color: color.RGBA{0xff, 0, 0, 0xff}}, {Offset: 1, Color: color.RGBA{0, 0, 0x80, 0x80}}})
		gen.StartPath(0, -28, -28)
		gen.AbsLineTo(28, -28)
		gen.RelSmoothQuadTo(-20, 40)
		gen.ClosePathEndPath()
		return digest(err, fmt.Sprintf("%x", img.Pix))
	}},
	{"encode with shared palette", func(s *Shared, g int) string {
		var e encode.Encoder
		pal := s.Palette
		pal[5], pal[9] = color.RGBA{0x10, 0x20, 0x30, 0x40}, color.RGBA{}
		if g%2 == 1 {
			pal[0] = color.RGBA{0xff, 0xff, 0xff, 0xff} // a second, different non-default palette
		}
		e.Reset(ivg.ViewBox{MinX: -16, MinY: -16, MaxX: 16, MaxY: 16}, pal)
		e.SetCReg(0, false, ivg.BlendColor(0x40, 0x80, 0xc1))
		e.StartPath(0, 1, 2)
		for i := 0; i < 3; i++ {
			e.RelCubeTo(1, 2, 3, 4, 5, float32(i))
		}
		e.ClosePathEndPath()
		b, err := e.Bytes()
		vb, err2 := decode.DecodeViewBox(b)
		return digest(err, err2, vb, fmt.Sprintf("%x", b))
	}},
	{"mdicons->encode", func(s *Shared, g int) string {
		var e encode.Encoder
		e.Reset(ivg.ViewBox{MinX: -24, MinY: -24, MaxX: 24, MaxY: 24}, ivg.DefaultPalette)
		op := float32(0.5)
		err := mdicons.ParsePath(&e, &mdicons.Path{D: s.PathData, FillOpacity: &op}, map[float32]uint8{}, 48, f32.Vec2{0, 0}, 48, []mdicons.Circle{{Cx: 24, Cy: 24, R: 4}})
		b, err2 := e.Bytes()
		return digest(err, err2, fmt.Sprintf("%x", b))
	}},
	// an Encoder used as the zero value (never Reset), read-backs first, runs of drawing operations
	{"zero-value-encoder", func(s *Shared, g int) string {
		var e encode.Encoder
		e.HighResolutionCoordinates = g%2 == 1
		c, n := e.CSel(), e.NSel()
		e.SetCReg(0, true, ivg.BlendColor(0x40, 0x81, 0xc0))
		e.StartPath(1, -3, float32(g))
		for i := 0; i < 132; i++ { // one run of 264 pending operands
			e.RelLineTo(1, float32(i%3))
		}
		for i := 0; i < 5; i++ {
			e.AbsQuadTo(1, 2, float32(i), 4.3)
		}
		e.ClosePathAbsMoveTo(2, 2)
		e.RelSmoothCubeTo(1, 1, 2, 0)
		e.ClosePathEndPath()
		b, err := e.Bytes()
		text, err2 := decode.Disassemble(b)
		return digest(c, n, err, err2, fmt.Sprintf("%x", b), len(text))
	}},
}
