// Package gen enumerates decoder inputs: engine (B) — the byte grammar of
// IconVG FFV0 up to an instruction depth, with every operand width
// combination, payload class and truncation point — and engine (F) — every
// truncation and single-byte substitution of the corpus carried by /repo.
package gen

import (
	"fmt"
	"os"
	"path/filepath"
	"regexp"
	"sort"
	"strconv"
	"strings"
)

// Unit is an independent slice of the input space.
type Unit struct {
	Name string
	// Each enumerates the unit's byte strings. The slice handed to yield is
	// reused; yield returns false to stop early.
	Each func(yield func(b []byte) bool)
}

var Magic = []byte{0x89, 0x49, 0x56, 0x47}

// RepoDir is the tree under test (corpus files are read from it at run time).
func RepoDir() string {
	if d := os.Getenv("VERIF_REPO"); d != "" {
		return d
	}
	return "/repo"
}

// ---- number forms ----------------------------------------------------------

// AppendNum appends payload v in width w (1: 7 bits, 2: 14 bits, 4: 30 bits).
func AppendNum(b []byte, w int, v uint32) []byte {
	switch w {
	case 1:
		return append(b, byte(v<<1))
	case 2:
		u := v<<2 | 1
		return append(b, byte(u), byte(u>>8))
	}
	u := v<<2 | 3
	return append(b, byte(u), byte(u>>8), byte(u>>16), byte(u>>24))
}

// AppendF32 appends a 4-byte number holding the float bits (low 2 bits dropped).
func AppendF32(b []byte, bits uint32) []byte { return AppendNum(b, 4, bits>>2) }

var P1 = []uint32{0, 1, 63, 64, 65, 127}
var P2 = []uint32{0, 1, 0x1fff, 0x2000, 0x2001, 0x3fff, 0x2040}
var P4 = []uint32{0, 0x80000000 >> 2, 0x3f800000 >> 2, 0xbf800000 >> 2, 0x3f000000 >> 2, 0x42c90000 >> 2, 0x3eaaaaa8 >> 2,
	0x7f7ffffc >> 2, 0x7f800000 >> 2, 0xff800000 >> 2, 0x7fc00000 >> 2, 0x7f800004 >> 2, 0x00000004 >> 2, 0x00800000 >> 2,
	0x4b800000 >> 2, 0x4f000000 >> 2, 0xcf000000 >> 2, 0x3fffffff}

func payloads(w int) []uint32 {
	switch w {
	case 1:
		return P1
	case 2:
		return P2
	}
	return P4
}

func defPayload(w int) uint32 {
	switch w {
	case 1:
		return 65
	case 2:
		return 0x2040
	}
	return 0x42c90000 >> 2
}

var widths = [3]int{1, 2, 4}

// ---- instruction table (the generator's own view of the grammar; it only
// steers coverage, the oracle is ref.Parse) -----------------------------------

type operand uint8

const (
	oNum operand = iota
	oCol1
	oCol2
	oCol3
	oCol4
	oBlend
)

// shape returns the operands of one repetition and the repeat count, or
// ok=false for a reserved opcode.
func shape(drawing bool, op byte) (ops []operand, reps int, ok bool) {
	if !drawing {
		switch {
		case op < 0x80:
			return nil, 1, true
		case op < 0xa8:
			return []operand{[]operand{oCol1, oCol2, oCol3, oCol4, oBlend}[(op-0x80)>>3]}, 1, true
		case op < 0xc0:
			return []operand{oNum}, 1, true
		case op < 0xc8:
			return []operand{oNum, oNum}, 1, true
		}
		return nil, 0, false
	}
	n := func(k int) []operand { return make([]operand, k) }
	switch {
	case op < 0x40:
		return n(2), int(op&0x1f) + 1, true
	case op < 0x60:
		return n(2), int(op&15) + 1, true
	case op < 0xa0:
		return n(4), int(op&15) + 1, true
	case op < 0xe0:
		return n(6), int(op&15) + 1, true
	case op == 0xe1:
		return nil, 1, true
	case op == 0xe2, op == 0xe3:
		return n(2), 1, true
	case op >= 0xe6 && op <= 0xe9:
		return n(1), 1, true
	}
	return nil, 0, false
}

func prefix(drawing bool) []byte {
	b := append([]byte{}, Magic...)
	b = append(b, 0x00)
	if drawing {
		b = append(b, 0xc0, 0x80, 0x80)
	}
	return b
}

// opcodeUnit enumerates single instructions for one (mode, opcode).
func opcodeUnit(drawing bool, op byte, thorough bool) Unit {
	mode := "styling"
	if drawing {
		mode = "drawing"
	}
	return Unit{Name: fmt.Sprintf("opcode/%s/%02x", mode, op), Each: func(yield func([]byte) bool) {
		pre := prefix(drawing)
		trailer := byte(0x05)
		if drawing {
			trailer = 0xe1
		}
		ops, reps, ok := shape(drawing, op)
		buf := make([]byte, 0, 1024)
		emit := func(body []byte, trunc bool) bool {
			// full string, full string + trailer, and (optionally) every truncation
			buf = append(buf[:0], pre...)
			buf = append(buf, op)
			buf = append(buf, body...)
			if !yield(buf) {
				return false
			}
			buf = append(buf, trailer)
			if !yield(buf) {
				return false
			}
			if trunc {
				full := len(pre) + 1 + len(body)
				for n := len(pre) + 1; n < full; n++ {
					if !yield(buf[:n]) {
						return false
					}
				}
			}
			return true
		}
		if !ok || len(ops) == 0 {
			// reserved or operand-less: the opcode alone, followed by each possible next byte class
			if !emit(nil, false) {
				return
			}
			for _, nx := range []byte{0x00, 0x41, 0x80, 0xa8, 0xc0, 0xc7, 0xe1, 0xe2, 0xff} {
				if !emit([]byte{nx, 0x80, 0x80, 0x80, 0x80}, true) {
					return
				}
			}
			return
		}
		body := make([]byte, 0, 1024)
		nNum := 0
		for _, o := range ops {
			if o == oNum {
				nNum++
			}
		}
		if nNum == len(ops) {
			k := len(ops)
			combos := 1
			for i := 0; i < k; i++ {
				combos *= 3
			}
			// (i) every width combination of the first repetition (later repetitions rotate)
			for c := 0; c < combos; c++ {
				if reps > 2 && c%3 != c/3%3 && !(c < 27) && !thorough {
					// quick tier: long runs use a reduced set of combinations
					continue
				}
				body = body[:0]
				for r := 0; r < reps; r++ {
					cc := c
					for i := 0; i < k; i++ {
						w := widths[(cc%3+r)%3]
						cc /= 3
						v := defPayload(w)
						if drawing && op >= 0xc0 && op < 0xe0 && i == 3 {
							// arc flags: cycle through the four flag values and beyond
							v = uint32(r+c) & 7
							if w == 4 {
								v = uint32(r+c)&7 | 0x3ffffff8
							}
						}
						body = AppendNum(body, w, v)
					}
				}
				if !emit(body, reps <= 2 || c < 3 || thorough) {
					return
				}
			}
			// (ii) every payload class in every position of the first and last repetition
			for _, rr := range []int{0, reps - 1} {
				for pos := 0; pos < k; pos++ {
					for _, w := range widths {
						for _, v := range payloads(w) {
							body = body[:0]
							for r := 0; r < reps; r++ {
								for i := 0; i < k; i++ {
									if r == rr && i == pos {
										body = AppendNum(body, w, v)
									} else {
										body = AppendNum(body, 1, 65)
									}
								}
							}
							if !emit(body, false) {
								return
							}
						}
					}
				}
				if reps == 1 {
					break
				}
			}
			// (iii) single-operand instructions: every 1-byte payload, and every 2-byte payload
			// for one opcode of each number kind (real, coordinate, zero-to-one, H coordinate)
			if k == 1 {
				for v := uint32(0); v < 128; v++ {
					if !emit(AppendNum(body[:0], 1, v), false) {
						return
					}
				}
				if (!drawing && (op == 0xa8 || op == 0xb0 || op == 0xb8)) || (drawing && op == 0xe6) || thorough {
					for v := uint32(0); v < 1<<14; v++ {
						if !emit(AppendNum(body[:0], 2, v), false) {
							return
						}
					}
				}
			}
			// arc angle: every 1- and 2-byte zero-to-one payload
			if drawing && (op == 0xc0 || op == 0xd0) {
				for w := 1; w <= 2; w++ {
					lim := uint32(128)
					if w == 2 {
						lim = 1 << 14
					}
					for v := uint32(0); v < lim; v++ {
						body = body[:0]
						for i := 0; i < 6; i++ {
							if i == 2 {
								body = AppendNum(body, w, v)
							} else {
								body = AppendNum(body, 1, 65+uint32(i))
							}
						}
						if !emit(body, false) {
							return
						}
					}
				}
			}
			// all pairs of payload classes for 2-operand instructions
			if k == 2 && reps == 1 {
				for _, w0 := range widths {
					for _, v0 := range payloads(w0) {
						for _, w1 := range widths {
							for _, v1 := range payloads(w1) {
								body = AppendNum(body[:0], w0, v0)
								body = AppendNum(body, w1, v1)
								if !emit(body, false) {
									return
								}
							}
						}
					}
				}
			}
			return
		}
		// colour operands (styling mode, one operand)
		switch ops[0] {
		case oCol1:
			for x := 0; x < 256; x++ {
				if !emit([]byte{byte(x)}, x < 4) {
					return
				}
			}
		case oCol2:
			lim := 256
			if op == 0x88 || thorough {
				lim = 65536
			}
			for x := 0; x < lim; x++ {
				b0, b1 := byte(x>>8), byte(x)
				if lim == 256 {
					b0, b1 = byte(x), byte(x*7+0x0f)
				}
				if !emit([]byte{b0, b1}, x < 4) {
					return
				}
			}
		case oCol3:
			for ch := 0; ch < 3; ch++ {
				for x := 0; x < 256; x++ {
					c := [3]byte{0x30, 0x66, 0x07}
					c[ch] = byte(x)
					if !emit(c[:], x < 2) {
						return
					}
				}
			}
		case oCol4:
			for _, a := range []byte{0x00, 0x80, 0xff} {
				for ch := 0; ch < 3; ch++ {
					for x := 0; x < 256; x++ {
						c := [4]byte{0x30, 0x66, 0x07, a}
						c[ch] = byte(x)
						if !emit(c[:], x < 2 && a == 0x80) {
							return
						}
					}
				}
			}
			for x := 0; x < 256; x++ {
				if !emit([]byte{0x10, 0x20, 0x30, byte(x)}, false) {
					return
				}
				if !emit([]byte{byte(x), 0x4a, 0x8a, 0x00}, false) { // gradient-looking
					return
				}
			}
		case oBlend:
			for t := 0; t < 256; t++ {
				for _, cc := range [][2]byte{{0x7f, 0x80}, {0xff, 0x00}, {0x7c, 0xc1}} {
					if !emit([]byte{byte(t), cc[0], cc[1]}, t < 2) {
						return
					}
				}
			}
			if op == 0xa0 || thorough {
				for c0 := 0; c0 < 256; c0++ {
					for c1 := 0; c1 < 256; c1++ {
						if !emit([]byte{0x40, byte(c0), byte(c1)}, false) {
							return
						}
					}
				}
			}
		}
	}}
}

// Fragments is the reduced alphabet for instruction sequences: one
// representative per opcode group and mode switch, valid and invalid.
var Fragments = [][]byte{
	{0x05},                               // CSEL / L x6 (needs operands) in drawing mode
	{0x45},                               // NSEL
	{0x80, 0x7c},                         // CREG 1 byte
	{0x9f, 0x10, 0x20, 0x30, 0x40},       // CREG 4 byte, incr
	{0xa1, 0x40, 0x7f, 0x80},             // CREG blend adj 1
	{0xa8, 0x28},                         // NREG real
	{0xb7, 0x81, 0x87},                   // NREG coord 2 byte, incr
	{0xbe, 0x63, 0x0b, 0x36, 0x3b},       // NREG zero-to-one 4 byte adj 6
	{0xc7, 0x10, 0x41, 0x00},             // LOD
	{0xc0, 0x80, 0x80},                   // start path
	{0xc6, 0x90, 0x03, 0x00, 0xf0, 0x40}, // start path adj 6, mixed widths
	{0xc8},                               // reserved (styling) / A x9 in drawing
	{0x00, 0x82, 0x84},                   // L x1
	{0x21, 0x82, 0x84, 0x86, 0x88},       // l x2
	{0x40, 0x90, 0x92},                   // T
	{0x70, 0x82, 0x84, 0x86, 0x88},       // q
	{0x81, 0x82, 0x84, 0x86, 0x88, 0x72, 0x74, 0x76, 0x78},                               // S x2
	{0xb0, 0x82, 0x84, 0x86, 0x88, 0x8a, 0x8c},                                           // c
	{0xc0, 0x84, 0x84, 0x0a, 0x02, 0x90, 0x92},                                           // A
	{0xd1, 0x84, 0x86, 0x00, 0x04, 0x70, 0x72, 0x84, 0x86, 0x41, 0x1a, 0x06, 0x90, 0x92}, // a x2
	{0xe1},             // Z
	{0xe2, 0x70, 0x72}, // Y
	{0xe3, 0x84, 0x86}, // y
	{0xe6, 0x90},       // H
	{0xe7, 0x72},       // h
	{0xe8, 0x94},       // V
	{0xe9, 0x76},       // v
	{0xe0},             // reserved
	{0xff},             // reserved in both modes
	{0x81},             // truncated CREG / S x2 without operands
}

func seqUnit(first, depth int) Unit {
	return Unit{Name: fmt.Sprintf("seq/d%d/%d", depth, first), Each: func(yield func([]byte) bool) {
		pre := prefix(false)
		idx := make([]int, depth)
		buf := make([]byte, 0, 256)
		for d := 1; d <= depth; d++ {
			for i := range idx {
				idx[i] = 0
			}
			idx[0] = first
			for {
				buf = append(buf[:0], pre...)
				for i := 0; i < d; i++ {
					buf = append(buf, Fragments[idx[i]]...)
				}
				if !yield(buf) {
					return
				}
				// odometer over positions 1..d-1
				i := d - 1
				for ; i >= 1; i-- {
					idx[i]++
					if idx[i] < len(Fragments) {
						break
					}
					idx[i] = 0
				}
				if i < 1 {
					break
				}
			}
		}
	}}
}

func tinyUnit(first int, k int) Unit {
	return Unit{Name: fmt.Sprintf("tiny/%d/%02x", k, first), Each: func(yield func([]byte) bool) {
		buf := append([]byte{}, Magic...)
		buf = append(buf, byte(first))
		if !yield(buf) {
			return
		}
		var rec func(depth int) bool
		rec = func(depth int) bool {
			if depth == k {
				return true
			}
			for x := 0; x < 256; x++ {
				buf = append(buf, byte(x))
				if !yield(buf) {
					return false
				}
				if !rec(depth + 1) {
					return false
				}
				buf = buf[:len(buf)-1]
			}
			return true
		}
		rec(1)
	}}
}

func magicUnit() Unit {
	return Unit{Name: "magic", Each: func(yield func([]byte) bool) {
		good := append(append([]byte{}, Magic...), 0x00, 0xc0, 0x80, 0x80, 0xe1)
		for n := 0; n <= 5; n++ {
			if !yield(good[:n]) {
				return
			}
		}
		buf := make([]byte, len(good))
		for i := 0; i < 4; i++ {
			for x := 0; x < 256; x++ {
				copy(buf, good)
				buf[i] = byte(x)
				if !yield(buf) {
					return
				}
			}
		}
		yield(nil)
	}}
}

// ---- corpus ----------------------------------------------------------------

type File struct {
	Name string
	Data []byte
}

var corpusCache []File

// Corpus loads testdata/*.ivg and the Material-Design icons of
// cmd/mdicons/test/data.go from the tree under test.
func Corpus() []File {
	if corpusCache != nil {
		return corpusCache
	}
	var files []File
	root := RepoDir()
	names, _ := filepath.Glob(filepath.Join(root, "testdata", "*.ivg"))
	sort.Strings(names)
	for _, n := range names {
		b, err := os.ReadFile(n)
		if err == nil {
			files = append(files, File{"testdata/" + filepath.Base(n), b})
		}
	}
	src, err := os.ReadFile(filepath.Join(root, "cmd", "mdicons", "test", "data.go"))
	if err == nil {
		re := regexp.MustCompile(`(?s)var (\w+) = \[\]byte\{(.*?)\}`)
		for _, m := range re.FindAllSubmatch(src, -1) {
			var data []byte
			for _, tok := range strings.FieldsFunc(string(m[2]), func(r rune) bool { return r == ',' || r == ' ' || r == '\n' || r == '\t' }) {
				v, err := strconv.ParseUint(tok, 0, 8)
				if err != nil {
					data = nil
					break
				}
				data = append(data, byte(v))
			}
			if len(data) > 0 {
				files = append(files, File{"md/" + string(m[1]), data})
			}
		}
	}
	corpusCache = files
	return files
}

const substChunk = 48

func corpusUnit(f File, subst bool, from int) Unit {
	kind := "prefix"
	name := "corpus/prefix/" + f.Name
	if subst {
		kind = "subst"
		name = fmt.Sprintf("corpus/subst/%s@%d", f.Name, from)
	}
	_ = kind
	return Unit{Name: name, Each: func(yield func([]byte) bool) {
		if !subst {
			for n := len(f.Data); n >= 0; n-- {
				if !yield(f.Data[:n]) {
					return
				}
			}
			return
		}
		buf := make([]byte, len(f.Data))
		copy(buf, f.Data)
		for i := from; i < len(buf) && i < from+substChunk; i++ {
			orig := buf[i]
			for x := 0; x < 256; x++ {
				if byte(x) == orig {
					continue
				}
				buf[i] = byte(x)
				if !yield(buf) {
					return
				}
			}
			buf[i] = orig
		}
	}}
}

// Units returns the decoder input space of the tier, in a fixed order.
func Units(tier string) []Unit {
	thorough := tier == "thorough"
	var us []Unit
	us = append(us, magicUnit())
	k := 2
	if thorough {
		k = 3
	}
	for x := 0; x < 256; x++ {
		us = append(us, tinyUnit(x, k))
	}
	for op := 0; op < 256; op++ {
		us = append(us, opcodeUnit(false, byte(op), thorough))
		us = append(us, opcodeUnit(true, byte(op), thorough))
	}
	depth := 3
	if thorough {
		depth = 4
	}
	for f := range Fragments {
		us = append(us, seqUnit(f, depth))
	}
	us = append(us, MetaUnits(thorough)...)
	us = append(us, Unit{Name: "gradient-stops", Each: func(yield func([]byte) bool) {
		// a gradient with k valid stops for every k the 6-bit field can hold, x shape x spread
		for k := 0; k < 64; k++ {
			for v := 0; v < 8; v++ {
				b := append(append([]byte{}, Magic...), 0x00, 0x14, 0x54)
				for i := 0; i < k; i++ {
					b = append(b, 0x87, byte(i%125), 0xbf)
					b = AppendNum(b, 2, uint32(i*200))
				}
				// the gradient value goes to CREG[19], the one register no stop list starting at 20 reaches
				b = append(b, 0x13, 0x98, byte(k), byte(20|(v&3)<<6), byte(20|0x80|(v>>2)<<6), 0x00)
				b = append(b, 0xc0, 0x70, 0x70, 0x01, 0x90, 0x70, 0x80, 0x90, 0xe1)
				if !yield(b) {
					return
				}
			}
		}
	}})
	us = append(us, Unit{Name: "gradient-stops", Each: func(yield func([]byte) bool) {
		// two stops and a matrix with huge entries (1e30, MaxFloat32, +Inf), every shape and spread
		for _, bits := range []uint32{0x7149f2c8, 0x7f7ffffc, 0x7f800000, 0xf149f2c8} {
			for v := 0; v < 8; v++ {
				b := append(append([]byte{}, Magic...), 0x00, 0x0e, 0x4e) // CSEL 14, NSEL 14
				for i := 0; i < 6; i++ {
					b = append(b, 0xaf) // NREG[NSEL++] = real, 4-byte form
					b = AppendF32(b, bits)
				}
				b = append(b, 0x14, 0x87, 0x10, 0x87, 0x60, 0xbf, 0x00, 0xbf, 0xf0) // CSEL 20; two colours; offsets 0 and 1
				b = append(b, 0x13, 0x98, 0x02, byte(20|(v&3)<<6), byte(20|0x80|(v>>2)<<6), 0x00)
				b = append(b, 0xc0, 0x70, 0x70, 0x01, 0x90, 0x70, 0x80, 0x90, 0xe1)
				if !yield(b) {
					return
				}
			}
		}
	}})
	us = append(us, Unit{Name: "c02only/selector-run", Each: func(yield func([]byte) bool) {
		b := make([]byte, 16<<20)
		copy(b, Magic)
		b[4] = 0x00
		for i := 5; i < len(b); i++ {
			b[i] = byte(i%2) * 0x41 // Set CSEL = 0, Set NSEL = 1, ...
		}
		yield(b)
	}})
	us = append(us, Unit{Name: "same-operands", Each: func(yield func([]byte) bool) {
		// the same operand bytes after two colour opcodes that read them differently
		ops := []byte{0x80, 0x88, 0x90, 0x91, 0x98, 0xa0, 0xa1, 0xa7}
		width := map[byte]int{0x80: 1, 0x88: 2, 0x90: 3, 0x91: 3, 0x98: 4, 0xa0: 3, 0xa1: 3, 0xa7: 3}
		for _, t := range [][4]byte{{0x40, 0xc1, 0x85, 0x80}, {0x00, 0x7f, 0x80, 0x00}, {0xff, 0x30, 0x66, 0xff}, {0x80, 0x80, 0x80, 0x80}} {
			for _, a := range ops {
				for _, b := range ops {
					s := append(append([]byte{}, Magic...), 0x00, a)
					s = append(s, t[:width[a]]...)
					s = append(s, b)
					s = append(s, t[:width[b]]...)
					if !yield(s) {
						return
					}
				}
			}
		}
	}})
	us = append(us, Unit{Name: "long-inputs", Each: func(yield func([]byte) bool) {
		// valid streams around and well beyond 64 KiB, and the same with a reserved opcode at the end
		pat := []byte{0x01, 0x41, 0xc0, 0x80, 0x80, 0x00, 0x82, 0x84, 0x41, 0x70, 0x90, 0xe1, 0x98, 0x30, 0x20, 0x07, 0x80}
		for _, n := range []int{65535, 65536, 65537, 70001, 131073} {
			b := append(append([]byte{}, Magic...), 0x00)
			for len(b)+len(pat) <= n {
				b = append(b, pat...)
			}
			for len(b) < n {
				b = append(b, 0x00)
			}
			if !yield(b) {
				return
			}
			b[len(b)-1] = 0xc8 // reserved styling opcode
			if !yield(b) {
				return
			}
		}
	}})
	files := Corpus()
	for _, f := range files {
		if thorough || strings.HasPrefix(f.Name, "testdata/") || len(f.Data) <= 64 {
			for from := 0; from < len(f.Data); from += substChunk {
				us = append(us, corpusUnit(f, true, from))
			}
		}
	}
	for _, f := range files {
		us = append(us, corpusUnit(f, false, 0))
	}
	return us
}

// TinyUnits returns the units enumerating every string magic + exactly... up to k bytes,
// split by the first two tail bytes when k >= 4 (65536 units would be too many: 256 units of 2^24).
func TinyUnits(k int) []Unit {
	var us []Unit
	for x := 0; x < 256; x++ {
		us = append(us, tinyUnit(x, k))
	}
	return us
}
