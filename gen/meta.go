package gen

import (
	"fmt"
	"math"
)

// Chunk describes one metadata chunk to synthesise.
type Chunk struct {
	LenW     int   // width of the length field
	LenDelta int64 // added to the true length
	LenAbs   int64 // if >= 0, overrides the declared length
	MidW     int
	Mid      uint32
	Body     []byte
}

// BuildMeta assembles magic + chunk count + chunks.
func BuildMeta(b []byte, countW int, count uint32, chunks []Chunk) []byte {
	b = append(b[:0], Magic...)
	b = AppendNum(b, countW, count)
	var tmp []byte
	for _, c := range chunks {
		tmp = AppendNum(tmp[:0], c.MidW, c.Mid)
		tmp = append(tmp, c.Body...)
		l := int64(len(tmp)) + c.LenDelta
		if c.LenAbs >= 0 {
			l = c.LenAbs
		}
		if l < 0 {
			l = 0
		}
		b = AppendNum(b, c.LenW, uint32(l))
		b = append(b, tmp...)
	}
	return b
}

// CoordIn encodes f as a coordinate of width w if representable.
func CoordIn(b []byte, w int, f float32) ([]byte, bool) {
	d := float64(f)
	switch w {
	case 1:
		if d == math.Trunc(d) && d >= -64 && d < 64 {
			return AppendNum(b, 1, uint32(int(d)+64)), true
		}
	case 2:
		if s := d * 64; s == math.Trunc(s) && d >= -128 && d < 128 {
			return AppendNum(b, 2, uint32(int(s)+128*64)), true
		}
	case 4:
		bits := math.Float32bits(f)
		if bits&3 == 0 {
			return AppendNum(b, 4, bits>>2), true
		}
	}
	return b, false
}

func fitsWidth(w int, v uint32) bool {
	switch w {
	case 1:
		return v < 1<<7
	case 2:
		return v < 1<<14
	}
	return v < 1<<30
}

var nan32 = math.Float32frombits(0x7fc00000)
var pinf32 = float32(math.Inf(1))
var ninf32 = float32(math.Inf(-1))

// VBTuples are the viewBox value classes.
var VBTuples = [][4]float32{
	{-24, -24, 24, 24},
	{0, 0, 48, 48},
	{-10, 5, 30, 25},
	{0.125, 0.125, 0.75, 1.25},
	{5, 5, 5, 5},        // degenerate min == max
	{0, 0, 0, 0},        // degenerate at the origin: every number is the zero value
	{-32, 7, -32, 9},    // degenerate in x only
	{24, -24, -24, 24},  // inverted x
	{-24, 24, 24, -24},  // inverted y
	{1, 1, 0.984375, 2}, // inverted x by 1/64
	{100.5, -300, 1000, 2},
	{-64, -64, 63, 63},
	{-128, -128, 127.984375, 127.984375},
	// finite, non-inverted boxes whose extent overflows float32 (valid: only the coordinates are constrained)
	{-bigF, -1, bigF, 1},
	{-maxF30, -maxF30, maxF30, maxF30},
	{0, -maxF30, 1, maxF30},
	{math.Float32frombits(0x7149f2c8), math.Float32frombits(0xf149f2c8), math.Float32frombits(0x7149f2c8), math.Float32frombits(0x7149f2cc)},
}

var bigF = math.Float32frombits(0x7f167698) // ~2e38, low two mantissa bits zero
var maxF30 = math.Float32frombits(0x7f7ffffc)

var tails = [][]byte{nil, {0xc0, 0x80, 0x80, 0xe1}}

func vbBody(b []byte, ws [4]int, t [4]float32) ([]byte, bool) {
	ok := true
	for i := 0; i < 4 && ok; i++ {
		b, ok = CoordIn(b, ws[i], t[i])
	}
	return b, ok
}

func defVB() []byte {
	b, _ := vbBody(nil, [4]int{1, 1, 1, 1}, [4]float32{-24, -24, 24, 24})
	return b
}

func defPal() []byte { return []byte{0x01, 0x7c, 0x30} } // 2 entries, 1 byte each

func withTailsAndTruncs(yield func([]byte) bool, b []byte, trunc bool) bool {
	n := len(b)
	for _, t := range tails {
		bb := append(b[:n:n], t...)
		if !yield(bb) {
			return false
		}
	}
	if trunc {
		for k := 4; k < n; k++ {
			if !yield(b[:k]) {
				return false
			}
		}
	}
	return true
}

// MetaUnits enumerates the metadata section shape space (DESIGN 3/C13).
func MetaUnits(thorough bool) []Unit {
	var us []Unit
	ch := func(mid uint32, body []byte) Chunk { return Chunk{LenW: 1, LenAbs: -1, MidW: 1, Mid: mid, Body: body} }

	us = append(us, Unit{Name: "meta/count", Each: func(yield func([]byte) bool) {
		var buf []byte
		lists := [][]Chunk{{}, {ch(0, defVB())}, {ch(0, defVB()), ch(1, defPal())}, {ch(1, defPal())}}
		for _, cnt := range []uint32{0, 1, 2, 3, 127, 128, 1 << 14, 1<<30 - 1} {
			for _, w := range widths {
				if !fitsWidth(w, cnt) {
					continue
				}
				for _, l := range lists {
					buf = BuildMeta(buf, w, cnt, l)
					if !withTailsAndTruncs(yield, buf, true) {
						return
					}
					// plenty of trailing bytes for a huge count to chew on
					bb := append(buf[:len(buf):len(buf)], make([]byte, 64)...)
					if !yield(bb) {
						return
					}
				}
			}
		}
	}})

	us = append(us, Unit{Name: "meta/lists", Each: func(yield func([]byte) bool) {
		var buf []byte
		vb, pal := defVB(), defPal()
		lists := [][]Chunk{{}, {ch(0, vb)}, {ch(1, pal)}, {ch(0, vb), ch(1, pal)}, {ch(1, pal), ch(0, vb)}, {ch(0, vb), ch(0, vb)},
			{ch(1, pal), ch(1, pal)}, {ch(2, nil)}, {ch(2, []byte{1, 2, 3})}, {ch(1<<30-1, nil)}, {ch(0, vb), ch(2, nil)}, {ch(0, vb), ch(1, pal), ch(2, nil)},
			{ch(0, vb), ch(1, pal), ch(1, pal)}, {ch(128, nil)}, {ch(1<<14, nil)}}
		for _, l := range lists {
			for _, dc := range []int{0, -1, 1} {
				cnt := len(l) + dc
				if cnt < 0 {
					continue
				}
				// identifier widths chosen per chunk (3^len combinations: a later chunk may use a
				// narrower or wider natural form than an earlier one), length width common
				nmw := 1
				for range l {
					nmw *= 3
				}
				for mwc := 0; mwc < nmw; mwc++ {
					for _, lw := range widths {
						ll := make([]Chunk, len(l))
						okw := true
						for i, c := range l {
							mw := widths[mwc/[]int{1, 3, 9}[i]%3]
							c.MidW, c.LenW = mw, lw
							if !fitsWidth(mw, c.Mid) {
								okw = false
							}
							ll[i] = c
						}
						if !okw {
							continue
						}
						buf = BuildMeta(buf, 1, uint32(cnt), ll)
						if !withTailsAndTruncs(yield, buf, true) {
							return
						}
					}
				}
			}
		}
	}})

	us = append(us, Unit{Name: "meta/viewbox", Each: func(yield func([]byte) bool) {
		var buf, body []byte
		for c := 0; c < 81; c++ {
			ws := [4]int{widths[c%3], widths[c/3%3], widths[c/9%3], widths[c/27%3]}
			for ti, t := range VBTuples {
				var ok bool
				body, ok = vbBody(body[:0], ws, t)
				if !ok {
					continue
				}
				buf = BuildMeta(buf, 1, 1, []Chunk{ch(0, body)})
				if !withTailsAndTruncs(yield, buf, ti == 0) {
					return
				}
			}
			// the same body under a declared length that fits another width combination
			// (5 = four 1-byte numbers, 9 = four 2-byte, 17 = four 4-byte)
			if body, ok := vbBody(body[:0], ws, VBTuples[0]); ok {
				for _, abs := range []int64{5, 9, 17} {
					if int(abs) == 1+len(body) {
						continue
					}
					c := ch(0, body)
					c.LenAbs = abs
					buf = BuildMeta(buf, 1, 1, []Chunk{c})
					if !withTailsAndTruncs(yield, buf, false) {
						return
					}
				}
			}
			// non-finite values exist only in the 4-byte form
			for pos := 0; pos < 4; pos++ {
				if ws[pos] != 4 {
					continue
				}
				for _, bad := range []float32{nan32, pinf32, ninf32, math.Float32frombits(0x7f800004), math.Float32frombits(0xffc00000)} {
					t := [4]float32{-24, -24, 24, 24}
					t[pos] = bad
					var ok bool
					body, ok = vbBody(body[:0], ws, t)
					if !ok {
						continue
					}
					buf = BuildMeta(buf, 1, 1, []Chunk{ch(0, body)})
					if !withTailsAndTruncs(yield, buf, false) {
						return
					}
				}
			}
		}
		// viewBox followed by palette, every tuple in 4-byte form
		for _, t := range VBTuples {
			body, _ = vbBody(body[:0], [4]int{4, 4, 4, 4}, t)
			buf = BuildMeta(buf, 1, 2, []Chunk{ch(0, body), ch(1, defPal())})
			if !withTailsAndTruncs(yield, buf, false) {
				return
			}
		}
	}})

	// two chunks whose declared lengths are wrong by +k and -k: the errors cancel over the section
	us = append(us, Unit{Name: "meta/lengths-cancel", Each: func(yield func([]byte) bool) {
		var buf []byte
		for k := int64(-3); k <= 3; k++ {
			if k == 0 {
				continue
			}
			a, b := ch(0, defVB()), ch(1, defPal())
			a.LenDelta, b.LenDelta = k, -k
			buf = BuildMeta(buf, 1, 2, []Chunk{a, b})
			if !withTailsAndTruncs(yield, buf, false) {
				return
			}
		}
	}})

	// every (min, max) pair of one axis over a value lattice (the other axis at its default):
	// the validity of a box is a relation between two numbers, so classes of single values do
	// not cover it. 4-byte forms (every value is representable there, low two bits zero).
	us = append(us, Unit{Name: "meta/viewbox-pairs", Each: func(yield func([]byte) bool) {
		vals := []float32{0, float32(math.Copysign(0, -1)), 1.0 / 64, -1.0 / 64, 1, -1, 24, -24, 24.015625, 23.984375, 127.984375, -128, 128, -128.015625,
			1e-30, -1e-30, 3e38, -3e38, maxF30, -maxF30, math.Float32frombits(0x00000004), math.Float32frombits(0x80000004), nan32, pinf32, ninf32}
		if thorough {
			for e := -20; e <= 20; e += 4 {
				f := float32(math.Ldexp(1.5, e))
				vals = append(vals, f, -f)
			}
		}
		var buf, body []byte
		for axis := 0; axis < 2; axis++ {
			for _, lo := range vals {
				for _, hi := range vals {
					t := [4]float32{-24, -24, 24, 24}
					// the 4-byte form drops the low two mantissa bits
					t[axis], t[axis+2] = math.Float32frombits(math.Float32bits(lo)&^3), math.Float32frombits(math.Float32bits(hi)&^3)
					body, _ = vbBody(body[:0], [4]int{4, 4, 4, 4}, t)
					buf = BuildMeta(buf, 1, 1, []Chunk{ch(0, body)})
					if !withTailsAndTruncs(yield, buf, false) {
						return
					}
				}
			}
		}
	}})

	// every pair of one-byte entries (an indirect entry may name an earlier, non-black one: it
	// is opaque black all the same), and every third entry after two direct ones
	us = append(us, Unit{Name: "meta/palette-pairs", Each: func(yield func([]byte) bool) {
		var buf []byte
		for a := 0; a < 256; a++ {
			for b := 0; b < 256; b++ {
				buf = BuildMeta(buf, 1, 1, []Chunk{ch(1, []byte{0x01, byte(a), byte(b)})})
				if !yield(buf) {
					return
				}
			}
			buf = BuildMeta(buf, 1, 1, []Chunk{ch(1, []byte{0x02, 0x30, 0x7c, byte(a)})})
			if !yield(buf) {
				return
			}
			buf = BuildMeta(buf, 1, 2, []Chunk{ch(0, defVB()), ch(1, []byte{0x02, 0x63, byte(a), 0x18})})
			if !yield(buf) {
				return
			}
		}
	}})

	uniform := [4][][]byte{
		{{0x00}, {0x7c}, {0x7d}, {0x7e}, {0x7f}, {0x80}, {0xc5}, {0x30}, {0xff}},
		{{0x00, 0x0f}, {0xff, 0xff}, {0x88, 0x88}, {0xf0, 0x08}, {0x12, 0x34}, {0x00, 0x00}},
		{{0x30, 0x66, 0x07}, {0xff, 0xff, 0xff}},
		{{0x30, 0x66, 0x07, 0x80}, {0x90, 0x66, 0x07, 0x80}, {0x02, 0x4a, 0x8a, 0x00}, {0x00, 0x00, 0x00, 0x00}, {0x00, 0x00, 0x80, 0x00}, {0x80, 0x80, 0x80, 0x80}, {0x81, 0x80, 0x80, 0x80}},
	}
	us = append(us, Unit{Name: "meta/palette-header", Each: func(yield func([]byte) bool) {
		var buf, body []byte
		for hdr := 0; hdr < 256; hdr++ {
			n, format := hdr&0x3f+1, hdr>>6
			for _, col := range uniform[format] {
				body = append(body[:0], byte(hdr))
				for i := 0; i < n; i++ {
					body = append(body, col...)
				}
				for _, delta := range []int64{0, -1, 1, int64(-len(col)), int64(len(col))} {
					c := ch(1, body)
					c.LenDelta = delta
					buf = BuildMeta(buf, 1, 1, []Chunk{c})
					if len(body)+1 >= 128 {
						c.LenW = 2
						buf = BuildMeta(buf, 1, 1, []Chunk{c})
					}
					if !withTailsAndTruncs(yield, buf, hdr%64 < 2 && delta == 0) {
						return
					}
				}
				// one entry missing / one entry too many with a consistent length
				for _, dn := range []int{-1, 1} {
					if n+dn < 0 {
						continue
					}
					body = append(body[:0], byte(hdr))
					for i := 0; i < n+dn; i++ {
						body = append(body, col...)
					}
					c := ch(1, body)
					if len(body)+1 >= 128 {
						c.LenW = 2
					}
					buf = BuildMeta(buf, 1, 1, []Chunk{c})
					if !withTailsAndTruncs(yield, buf, false) {
						return
					}
				}
			}
		}
	}})

	us = append(us, Unit{Name: "meta/palette-entry", Each: func(yield func([]byte) bool) {
		var buf []byte
		for x := 0; x < 256; x++ {
			for _, body := range [][]byte{{0x00, byte(x)}, {0x01, byte(x), 0x7c}, {0x01, 0x30, byte(x)}, {0x3f | 0x00, byte(x)}} {
				if body[0] == 0x3f {
					for i := 0; i < 63; i++ {
						body = append(body, byte(x+i))
					}
				}
				buf = BuildMeta(buf, 1, 1, []Chunk{ch(1, body)})
				if !withTailsAndTruncs(yield, buf, false) {
					return
				}
			}
		}
		for x := 0; x < 65536; x++ {
			buf = BuildMeta(buf, 1, 1, []Chunk{ch(1, []byte{0x40, byte(x >> 8), byte(x)})})
			if !yield(buf) {
				return
			}
		}
		// 3- and 4-byte entries: per-channel sweeps
		for chn := 0; chn < 4; chn++ {
			for x := 0; x < 256; x++ {
				c := [4]byte{0x30, 0x40, 0x50, 0x80}
				c[chn] = byte(x)
				buf = BuildMeta(buf, 1, 1, []Chunk{ch(1, append([]byte{0xc0}, c[:]...))})
				if !yield(buf) {
					return
				}
				if chn < 3 {
					buf = BuildMeta(buf, 1, 1, []Chunk{ch(1, append([]byte{0x80}, c[:3]...))})
					if !yield(buf) {
						return
					}
				}
				// gradient-looking (alpha 0, blue >= 0x80)
				g := [4]byte{byte(x), 0x4a, 0x8a, 0x00}
				buf = BuildMeta(buf, 1, 1, []Chunk{ch(1, append([]byte{0xc1}, append(g[:], 0x10, 0x20, 0x30, 0xff)...))})
				if !yield(buf) {
					return
				}
			}
		}
	}})

	us = append(us, Unit{Name: "meta/length", Each: func(yield func([]byte) bool) {
		var buf []byte
		vb, pal := defVB(), defPal()
		vb4, _ := vbBody(nil, [4]int{4, 2, 1, 4}, [4]float32{-24, -24, 24, 24})
		lists := [][]Chunk{{ch(0, vb)}, {ch(1, pal)}, {ch(0, vb), ch(1, pal)}, {ch(0, vb4)}, {ch(0, vb4), ch(1, []byte{0xc1, 1, 2, 3, 0x80, 0, 0, 0, 0xff})}}
		extra := [][]byte{nil, {0xc0, 0x80, 0x80, 0xe1}, make([]byte, 16), {0x80, 0x80, 0x80, 0x80, 0x80, 0x80, 0x80, 0x80}}
		for _, l := range lists {
			for which := range l {
				for _, lw := range widths {
					variants := []Chunk{}
					for d := int64(-3); d <= 3; d++ {
						c := l[which]
						c.LenW, c.LenDelta = lw, d
						variants = append(variants, c)
					}
					for _, abs := range []int64{0, 1, 127, 128, 1<<14 - 1, 1 << 14, 1<<30 - 1} {
						if !fitsWidth(lw, uint32(abs)) {
							continue
						}
						c := l[which]
						c.LenW, c.LenAbs = lw, abs
						variants = append(variants, c)
					}
					for _, v := range variants {
						ll := append([]Chunk{}, l...)
						ll[which] = v
						buf = BuildMeta(buf, 1, uint32(len(ll)), ll)
						n := len(buf)
						for _, e := range extra {
							if !yield(append(buf[:n:n], e...)) {
								return
							}
						}
					}
				}
			}
		}
	}})
	_ = fmt.Sprint
	return us
}
