package props

import (
	"encoding/hex"
	"encoding/json"
	"fmt"
	"runtime/debug"
	"strings"

	"github.com/reactivego/ivg"
	"github.com/reactivego/ivg/decode"
	"verif/gen"
	"verif/mc"
	"verif/rec"
)

// bytesCase is the replayable form of a decoder input.
type bytesCase struct {
	Hex  string `json:"hex"`
	Unit string `json:"unit,omitempty"`
}

func mkBytesCase(b []byte, unit string) bytesCase {
	return bytesCase{Hex: hex.EncodeToString(b), Unit: unit}
}

func (c bytesCase) bytes() []byte { b, _ := hex.DecodeString(c.Hex); return b }

func hexShort(b []byte) string {
	s := hex.EncodeToString(b)
	if len(s) > 160 {
		s = s[:160] + fmt.Sprintf("...(%d bytes)", len(b))
	}
	return s
}

// safeDecode runs decode.Decode and converts a panic into a value.
func safeDecode(dst ivg.Destination, b []byte, opts ...decode.DecodeOption) (err error, pnc any, stack string) {
	defer func() {
		if r := recover(); r != nil {
			pnc = r
			stack = string(debug.Stack())
		}
	}()
	err = decode.Decode(dst, b, opts...)
	return
}

func panicKey(stack string) string {
	for _, l := range strings.Split(stack, "\n") {
		if strings.HasPrefix(l, "github.com/reactivego/ivg") {
			if i := strings.LastIndex(l, "("); i > 0 {
				l = l[:i]
			}
			return l
		}
	}
	return "unknown"
}

// firstDiff returns the index of the first differing call, or -1.
func firstDiff(a, b []rec.Call) int {
	n := len(a)
	if len(b) < n {
		n = len(b)
	}
	for i := 0; i < n; i++ {
		if !a[i].Equal(&b[i]) {
			return i
		}
	}
	if len(a) != len(b) {
		return n
	}
	return -1
}

func callAt(cs []rec.Call, i int) string {
	if i < len(cs) {
		return cs[i].String()
	}
	return "<none>"
}

func methodAt(cs []rec.Call, i int) string {
	if i < len(cs) {
		return cs[i].M.String()
	}
	return "none"
}

var genUnitsCache = map[string][]gen.Unit{}

// genUnits: the shared input space. Units named c02only/... (very long inputs) belong to C02 alone.
func genUnits(tier string) []gen.Unit {
	if u, ok := genUnitsCache[tier]; ok {
		return u
	}
	var u []gen.Unit
	for _, x := range gen.Units(tier) {
		if !strings.HasPrefix(x.Name, "c02only/") {
			u = append(u, x)
		}
	}
	genUnitsCache[tier] = u
	return u
}

func genUnitsC02(tier string) []gen.Unit {
	if u, ok := genUnitsCache["c02:"+tier]; ok {
		return u
	}
	u := gen.Units(tier)
	genUnitsCache["c02:"+tier] = u
	return u
}

func bytesReplay(check func(w *mc.W, b []byte, unit string)) func(w *mc.W, data json.RawMessage) error {
	return func(w *mc.W, data json.RawMessage) error {
		var cs bytesCase
		if err := unmarshalCase(data, &cs); err != nil {
			return err
		}
		check(w, cs.bytes(), cs.Unit)
		return nil
	}
}
