package props

import (
	"encoding/hex"
	"encoding/json"
	"fmt"
	"runtime/debug"
	"strings"

	"github.com/reactivego/ivg"
	"github.com/reactivego/ivg/decode"
	"verif/gen"
	"verif/mc"
	"verif/rec"
)

// bytesCase is the replayable form of a decoder input.
type bytesCase struct {
	Hex  string `json:"hex"`
	Unit string `json:"unit,omitempty"`
	// Prev: inputs the exploring process ran through the same check before this one (oldest first).
	// Present only in the case-with-context of a violation (mc.Violation.Alt): a failure that depends on
	// state left behind by earlier calls (a pooled object, a memo keyed on the caller's buffer) does not
	// show when the input is decoded alone in a fresh process. On replay they are run first, all in
	// one buffer that is overwritten in place, as a caller with a read buffer would.
	Prev []string `json:"prev_hex,omitempty"`
}

// byteHistory is the history of the worker process.
var byteHistory byteHist

// histOK is set by the byte-input checks: the specification accepts (the metadata of) the input just judged.
var histOK, histPartial bool

// setHist files the verdict of the reference parser for the input just judged.
func setHist(metaOK, hasVB, hasPal bool, reason string) {
	histOK = metaOK
	histPartial = !metaOK && (hasVB || hasPal || strings.HasPrefix(reason, "viewbox") || strings.HasPrefix(reason, "palette") || reason == "chunk length mismatch")
}

// byteHist remembers what a worker fed to a check before the current input: the last eight
// inputs and the last input the specification accepts. One history per worker process (a worker
// serves one check), kept across units: so are the objects of the library.
type byteHist struct {
	ring   [8][]byte
	lastOK []byte
	// lastPartial: the last input whose metadata the specification rejects after a chunk body was
	// entered (a decoder may have stored part of it before it gave up)
	lastPartial []byte
	cur         []byte
	unit        string
}

// begin makes b the current input and installs the case-with-context provider. It returns the input
// in the buffer of the worker process, overwritten in place from input to input (as a caller with a read
// buffer would hand it over): consecutive inputs of one length share address and length, so a decoder
// that remembers a caller's buffer by identity shows. (Very long inputs are handed over as they are.)
func (h *byteHist) begin(w *mc.W, b []byte, unit string) []byte {
	if len(b) <= cap(histBuf) {
		histBuf = append(histBuf[:0], b...)
		b = histBuf
	}
	h.cur, h.unit = b, unit
	w.SetAltCase(h.alt)
	return b
}

var histBuf = make([]byte, 0, 1<<17)

// end files the current input (ok: the specification accepts it).
func (h *byteHist) end(ok bool) {
	if histPartial {
		h.lastPartial = append(h.lastPartial[:0], h.cur...)
		histPartial = false
	}
	if len(h.cur) > 4096 {
		*h = byteHist{}
		return
	}
	c := append(h.ring[0][:0], h.cur...) // reuse the oldest copy's storage
	copy(h.ring[:], h.ring[1:])
	h.ring[len(h.ring)-1] = c
	if ok {
		h.lastOK = append(h.lastOK[:0], h.cur...)
	}
}

func (h *byteHist) alt() any {
	var prev []string
	if h.lastPartial != nil {
		prev = append(prev, hex.EncodeToString(h.lastPartial))
	}
	if h.lastOK != nil {
		prev = append(prev, hex.EncodeToString(h.lastOK))
	}
	for _, p := range h.ring {
		if p != nil {
			prev = append(prev, hex.EncodeToString(p))
		}
	}
	if len(prev) == 0 {
		return nil
	}
	return bytesCase{Hex: hex.EncodeToString(h.cur), Unit: h.unit, Prev: prev}
}

func mkBytesCase(b []byte, unit string) bytesCase {
	return bytesCase{Hex: hex.EncodeToString(b), Unit: unit}
}

func (c bytesCase) bytes() []byte { b, _ := hex.DecodeString(c.Hex); return b }

func hexShort(b []byte) string {
	s := hex.EncodeToString(b)
	if len(s) > 160 {
		s = s[:160] + fmt.Sprintf("...(%d bytes)", len(b))
	}
	return s
}

// safeDecode runs decode.Decode and converts a panic into a value.
func safeDecode(dst ivg.Destination, b []byte, opts ...decode.DecodeOption) (err error, pnc any, stack string) {
	defer func() {
		if r := recover(); r != nil {
			pnc = r
			stack = string(debug.Stack())
		}
	}()
	err = decode.Decode(dst, b, opts...)
	return
}

func panicKey(stack string) string {
	for _, l := range strings.Split(stack, "\n") {
		if strings.HasPrefix(l, "github.com/reactivego/ivg") {
			if i := strings.LastIndex(l, "("); i > 0 {
				l = l[:i]
			}
			return l
		}
	}
	return "unknown"
}

// firstDiff returns the index of the first differing call, or -1.
func firstDiff(a, b []rec.Call) int {
	n := len(a)
	if len(b) < n {
		n = len(b)
	}
	for i := 0; i < n; i++ {
		if !a[i].Equal(&b[i]) {
			return i
		}
	}
	if len(a) != len(b) {
		return n
	}
	return -1
}

func callAt(cs []rec.Call, i int) string {
	if i < len(cs) {
		return cs[i].String()
	}
	return "<none>"
}

func methodAt(cs []rec.Call, i int) string {
	if i < len(cs) {
		return cs[i].M.String()
	}
	return "none"
}

var genUnitsCache = map[string][]gen.Unit{}

// genUnits: the shared input space. Units named c02only/... (very long inputs) belong to C02 alone.
func genUnits(tier string) []gen.Unit {
	if u, ok := genUnitsCache[tier]; ok {
		return u
	}
	var u []gen.Unit
	for _, x := range gen.Units(tier) {
		if !strings.HasPrefix(x.Name, "c02only/") {
			u = append(u, x)
		}
	}
	genUnitsCache[tier] = u
	return u
}

func genUnitsC02(tier string) []gen.Unit {
	if u, ok := genUnitsCache["c02:"+tier]; ok {
		return u
	}
	u := gen.Units(tier)
	genUnitsCache["c02:"+tier] = u
	return u
}

// bytesReplay: mk returns the check bound to fresh harness state; one replay uses one such state for the
// inputs that preceded the case and for the case, as the exploring worker did.
func bytesReplay(mk func() func(w *mc.W, b []byte, unit string)) func(w *mc.W, data json.RawMessage) error {
	return func(w *mc.W, data json.RawMessage) error {
		var cs bytesCase
		if err := unmarshalCase(data, &cs); err != nil {
			return err
		}
		check := mk()
		if len(cs.Prev) > 0 {
			n := len(cs.Hex) / 2
			for _, p := range cs.Prev {
				if len(p)/2 > n {
					n = len(p) / 2
				}
			}
			buf := make([]byte, n)
			sw := w.Scratch()
			for _, p := range cs.Prev {
				pb, _ := hex.DecodeString(p)
				check(sw, buf[:copy(buf, pb)], cs.Unit)
			}
			check(w, buf[:copy(buf, cs.bytes())], cs.Unit)
			return nil
		}
		check(w, cs.bytes(), cs.Unit)
		return nil
	}
}
