package props

import (
	"encoding/json"
	"fmt"
	"math"
	"math/big"

	"github.com/reactivego/ivg"
	"verif/mc"
)

// C12 — aspect-preserving viewBox placement (engine P: product enumeration).

type c12Case struct {
	VB    [4]uint32 `json:"vb_bits"`
	DX    uint32    `json:"dx_bits"`
	DY    uint32    `json:"dy_bits"`
	AX    uint32    `json:"ax_bits"`
	AY    uint32    `json:"ay_bits"`
	Slice bool      `json:"slice"`
	Exact bool      `json:"exact"`
	Desc  string    `json:"desc,omitempty"`
}

func c12Dom(thorough bool) []float32 {
	es := []int{-10, -3, 0, 1, 5, 10, 20}
	ms := []float64{1, 1.25, 1.5, 1.9999} // 1.9999 * 2^e against 1 * 2^(e+1): aspect ratios 1 part in 20000 apart
	if thorough {
		es = []int{-20, -10, -5, -3, -1, 0, 1, 2, 3, 5, 10, 20}
		ms = []float64{1, 1.25, 1.5, 1.999, 1.9999}
	}
	var d []float32
	for _, e := range es {
		for _, m := range ms {
			d = append(d, float32(math.Ldexp(m, e)))
		}
	}
	return d
}

var c12Align = []float32{0, 0.25, 0.3, 0.5, 1} // 0.3: not a dyadic fraction
var c12Off = []float32{0, -32, 1e3}

func init() {
	mc.Register(&mc.Check{
		ID:    "C12",
		Level: "exploration",
		Rule: "Cartesian product of viewBox width/height and target dx/dy over {2^e*m} (28 values quick, 60 thorough), 3 viewBox origins, 5x5 alignment fractions (0, 0.25, 0.3, 0.5, 1), for AspectMeet and AspectSlice, plus ten extreme families (all dimensions ~2^64 resp. ~2^-80: products of two dimensions overflow resp. underflow float32 while every ratio stays moderate; viewBox ~2^-70 into a target ~2^60 and the reverse: the scale factor itself is outside the float32 range; subnormal viewBoxes ~2^-135 into subnormal and into normal targets, and the reverse; ordinary viewBoxes into targets whose two sides are 130..150 binary orders apart from each other); " +
			"every result compared with an exact (big.Rat / float64) reference fit. An outcome is the tuple (which dimension is constrained, sign of slack in x, sign of slack in y, method); " +
			"non-trivial = aspect ratios differ so that slack or overflow is non-zero in one dimension",
		Assumptions: []string{"linux/amd64 float32 semantics", "tolerance 2^-18 relative to max(target side, result extent) per axis"},
		Units: func(tier string) int {
			n := len(c12Dom(tier == "thorough"))
			return n*n + 10
		},
		Run:    c12Run,
		Replay: c12Replay,
		Post:   postDistinct(6),
	})
}

// extreme families: every dimension huge (products of two overflow float32) or tiny (products
// underflow to 0) while all aspect ratios stay moderate
//
// gap families: viewBox ~2^-70 into a target ~2^60 and the reverse: the scale factor target /
// viewBox itself is outside the float32 range (2^130 resp. 2^-130) while every aspect ratio is
// moderate and the result is of the target's magnitude
func c12Extreme(w *mc.W, e, et, ety int) {
	var dom, tdom, tdomY []float32
	for _, m := range []float64{1, 1.25, 1.75, 1.999} {
		dom = append(dom, float32(math.Ldexp(m, e)))
		tdom = append(tdom, float32(math.Ldexp(m, et)))
		tdomY = append(tdomY, float32(math.Ldexp(m, ety)))
	}
	for _, vw := range dom {
		for _, vh := range dom {
			for _, off := range []float32{0, float32(math.Ldexp(-3, e))} {
				vb := ivg.ViewBox{MinX: off, MinY: off / 2, MaxX: off + vw, MaxY: off/2 + vh}
				for _, dx := range tdom {
					for _, dy := range tdomY {
						for _, ax := range c12Align {
							for _, ay := range c12Align {
								for _, slice := range []bool{false, true} {
									cs := c12Case{VB: [4]uint32{f32b(vb.MinX), f32b(vb.MinY), f32b(vb.MaxX), f32b(vb.MaxY)},
										DX: f32b(dx), DY: f32b(dy), AX: f32b(ax), AY: f32b(ay), Slice: slice, Exact: true}
									c12Check(w, &cs)
								}
							}
						}
					}
				}
			}
		}
	}
}

func c12Run(w *mc.W, u int) {
	dom := c12Dom(w.Thorough)
	n := len(dom)
	if u >= n*n {
		fam := [][3]int{{64, 64, 64}, {-80, -80, -80}, {-70, 60, 60}, {60, -70, -70}, {-135, -135, -135}, {-135, -100, -100}, {-100, -135, -135},
			{0, -80, 70}, {0, 70, -80}, {3, -40, 90}}[u-n*n] // the last three: target sides 150 and 130 binary orders apart from each other
		c12Extreme(w, fam[0], fam[1], fam[2])
		return
	}
	vw, vh := dom[u/n], dom[u%n]
	for _, off := range c12Off {
		vb := ivg.ViewBox{MinX: off, MinY: off / 2, MaxX: off + vw, MaxY: off/2 + vh}
		if !(vb.MaxX > vb.MinX && vb.MaxY > vb.MinY) {
			w.Skip()
			continue
		}
		for _, dx := range dom {
			for _, dy := range dom {
				if w.Expired() {
					return
				}
				for _, ax := range c12Align {
					for _, ay := range c12Align {
						for _, slice := range []bool{false, true} {
							cs := c12Case{VB: [4]uint32{f32b(vb.MinX), f32b(vb.MinY), f32b(vb.MaxX), f32b(vb.MaxY)},
								DX: f32b(dx), DY: f32b(dy), AX: f32b(ax), AY: f32b(ay), Slice: slice, Exact: u%5 == 0}
							c12Check(w, &cs)
						}
					}
				}
			}
		}
	}
}

func c12Replay(w *mc.W, data json.RawMessage) error {
	var cs c12Case
	if err := unmarshalCase(data, &cs); err != nil {
		return err
	}
	c12Check(w, &cs)
	return nil
}

// refFit computes the exact fit; float64 path (inputs are float32, all
// products exact, quotients correct to 2^-53) or big.Rat path.
func refFit(vw, vh, dx, dy, ax, ay float64, slice, exact bool) (minX, minY, maxX, maxY float64, constrained int) {
	if exact {
		r := func(f float64) *big.Rat { return new(big.Rat).SetFloat64(f) }
		sx := new(big.Rat).Quo(r(dx), r(vw))
		sy := new(big.Rat).Quo(r(dy), r(vh))
		s := sx
		c := sx.Cmp(sy)
		constrained = 0
		if (c > 0) != slice && c != 0 {
			s = sy
			constrained = 1
		}
		if c == 0 {
			constrained = 2
		}
		wd := new(big.Rat).Mul(r(vw), s)
		ht := new(big.Rat).Mul(r(vh), s)
		mx := new(big.Rat).Mul(new(big.Rat).Sub(r(dx), wd), r(ax))
		my := new(big.Rat).Mul(new(big.Rat).Sub(r(dy), ht), r(ay))
		f := func(x *big.Rat) float64 { v, _ := x.Float64(); return v }
		return f(mx), f(my), f(new(big.Rat).Add(mx, wd)), f(new(big.Rat).Add(my, ht)), constrained
	}
	sx, sy := dx/vw, dy/vh
	s := sx
	constrained = 0
	if (sx > sy) != slice && sx != sy {
		s = sy
		constrained = 1
	}
	if sx == sy {
		constrained = 2
	}
	wd, ht := vw*s, vh*s
	if constrained == 0 {
		wd = dx
	} else if constrained == 1 {
		ht = dy
	} else {
		wd, ht = dx, dy
	}
	mx, my := (dx-wd)*ax, (dy-ht)*ay
	return mx, my, mx + wd, my + ht, constrained
}

func c12Check(w *mc.W, cs *c12Case) {
	w.Eval()
	vb := ivg.ViewBox{MinX: b32f(cs.VB[0]), MinY: b32f(cs.VB[1]), MaxX: b32f(cs.VB[2]), MaxY: b32f(cs.VB[3])}
	dx, dy, ax, ay := b32f(cs.DX), b32f(cs.DY), b32f(cs.AX), b32f(cs.AY)
	sx, sy := vb.Size()
	if f32b(sx) != f32b(vb.MaxX-vb.MinX) || f32b(sy) != f32b(vb.MaxY-vb.MinY) {
		w.Fail("size", fmt.Sprintf("Size()=(%g,%g) want (%g,%g)", sx, sy, vb.MaxX-vb.MinX, vb.MaxY-vb.MinY), cs)
	}
	var x0, y0, x1, y1 float32
	name := "meet"
	if cs.Slice {
		name = "slice"
		x0, y0, x1, y1 = vb.AspectSlice(dx, dy, ax, ay)
	} else {
		x0, y0, x1, y1 = vb.AspectMeet(dx, dy, ax, ay)
	}
	// exact viewBox size (difference of the float32 corner values)
	vw := float64(vb.MaxX) - float64(vb.MinX)
	vh := float64(vb.MaxY) - float64(vb.MinY)
	ex0, ey0, ex1, ey1, constrained := refFit(vw, vh, float64(dx), float64(dy), float64(ax), float64(ay), cs.Slice, cs.Exact)
	const rel = 1.0 / (1 << 18)
	// float32 rounding is relative only down to the smallest normal number: below it the
	// spacing is 2^-149 whatever the magnitude (a few roundings of it are allowed)
	quantum := math.Ldexp(4, -149)
	tx := math.Max(rel*math.Max(float64(dx), ex1-ex0), quantum)
	ty := math.Max(rel*math.Max(float64(dy), ey1-ey0), quantum)
	bad := ""
	chk := func(what string, got float32, want, tol float64) {
		if !(math.Abs(float64(got)-want) <= tol) {
			bad += fmt.Sprintf("%s=%g want %g (tol %g); ", what, got, want, tol)
		}
	}
	chk("minX", x0, ex0, tx)
	chk("maxX", x1, ex1, tx)
	chk("minY", y0, ey0, ty)
	chk("maxY", y1, ey1, ty)
	// structural clauses, independent of the reference fit
	gw, gh := float64(x1)-float64(x0), float64(y1)-float64(y0)
	if !(gw >= 0 && gh >= 0) {
		bad += fmt.Sprintf("negative result size %g x %g; ", gw, gh)
	} else {
		// same aspect: gw*vh == gh*vw relative
		// same aspect, up to rounding relative to the target size in each axis
		if d := math.Abs(gh - gw*vh/vw); d > 2*ty+2*tx*vh/vw {
			bad += fmt.Sprintf("aspect %g differs from viewBox aspect %g; ", gw/gh, vw/vh)
		}
		eqX := math.Abs(gw-float64(dx)) <= tx
		eqY := math.Abs(gh-float64(dy)) <= ty
		if !eqX && !eqY {
			bad += "equals the target in no dimension; "
		}
		if !cs.Slice {
			if gw > float64(dx)+tx || gh > float64(dy)+ty || float64(x0) < -tx || float64(y0) < -ty || float64(x1) > float64(dx)+tx || float64(y1) > float64(dy)+ty {
				bad += "meet result not inside the target; "
			}
		} else {
			if float64(x0) > tx || float64(y0) > ty || float64(x1) < float64(dx)-tx || float64(y1) < float64(dy)-ty {
				bad += "slice result does not cover the target; "
			}
		}
	}
	if bad != "" {
		cs.Desc = fmt.Sprintf("%s vb=%v target=%gx%g align=(%g,%g)", name, vb, dx, dy, ax, ay)
		w.Fail(name+":placement", fmt.Sprintf("%s -> (%g,%g,%g,%g): %s", cs.Desc, x0, y0, x1, y1, bad), cs)
	}
	h := mc.NewHasher()
	h.Bool(cs.Slice)
	h.Byte(byte(constrained))
	sgn := func(v float64) byte {
		if v > 0 {
			return 2
		} else if v < 0 {
			return 0
		}
		return 1
	}
	h.Byte(sgn(float64(dx) - gw))
	h.Byte(sgn(float64(dy) - gh))
	h.Byte(sgn(float64(x0)))
	h.Byte(sgn(float64(y0)))
	w.Outcome(h.Sum(), constrained != 2)
	if w.WantSample() && constrained != 2 {
		w.Sample(map[string]any{"method": name, "viewbox": vb, "target": [2]float32{dx, dy}, "align": [2]float32{ax, ay}, "result": [4]float32{x0, y0, x1, y1}})
	}
}
