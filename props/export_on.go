//go:build verif

package props

import (
	"github.com/reactivego/ivg/decode"
	"github.com/reactivego/ivg/encode"
)

func init() {
	privEnc = &privEncoders{
		Natural:   encode.VerifEncodeNatural,
		Real:      encode.VerifEncodeReal,
		Coord:     encode.VerifEncodeCoordinate,
		ZeroToOne: encode.VerifEncodeZeroToOne,
		Angle:     encode.VerifEncodeAngle,
	}
	privDec = &privDecoders{
		Natural:   decode.VerifDecodeNatural,
		Real:      decode.VerifDecodeReal,
		Coord:     decode.VerifDecodeCoordinate,
		ZeroToOne: decode.VerifDecodeZeroToOne,
	}
}
