package props

import (
	"bytes"
	"encoding/json"
	"fmt"
	"image"
	"image/color"
	"math"

	"github.com/reactivego/ivg"
	"github.com/reactivego/ivg/decode"
	"github.com/reactivego/ivg/encode"
	"github.com/reactivego/ivg/generate"
	"github.com/reactivego/ivg/render"
	"verif/mc"
	"verif/rec"
	"verif/ref"
)

// C07 — direct rendering equals rendering via bytes; selectors agree.
// Engine S over two pipelines in lock step.

type c07Letter struct {
	name string
	// run performs the letter on a Generator (whose Destination is the pipeline
	// under test) and returns the helper's error, if any.
	run func(g *generate.Generator, set int) error
}

var c07Stops2 = []generate.GradientStop{{Offset: 0, Color: color.RGBA{0xff, 0, 0, 0xff}}, {Offset: 1, Color: color.RGBA{0, 0, 0xff, 0xff}}}
var c07Stops3 = []generate.GradientStop{{Offset: 0, Color: color.RGBA{0x80, 0, 0, 0x80}}, {Offset: 0.5, Color: color.Gray{0x40}}, {Offset: 1, Color: color.NRGBA{0, 0xff, 0, 0x80}}}

// argument sets: 0 = dyadic (everything exactly representable), 1 = non-dyadic
func c07v(set int, dy, nd float32) float32 {
	if set == 0 {
		return dy
	}
	return nd
}

var c07Letters = func() []c07Letter {
	var ls []c07Letter
	plain := func(name string, f func(d ivg.Destination, set int)) {
		ls = append(ls, c07Letter{name, func(g *generate.Generator, set int) error { f(g, set); return nil }})
	}
	for _, s := range []uint8{0, 9, 10, 62, 63, 74} { // 74 = 64+10: arguments are reduced modulo 64
		s := s
		plain(fmt.Sprintf("SetCSel(%d)", s), func(d ivg.Destination, set int) { d.SetCSel(s) })
	}
	for _, s := range []uint8{0, 9, 10, 63, 201} {
		s := s
		plain(fmt.Sprintf("SetNSel(%d)", s), func(d ivg.Destination, set int) { d.SetNSel(s) })
	}
	plain("SetCReg(0,true,red)", func(d ivg.Destination, set int) { d.SetCReg(0, true, rgba(0xff, 0, 0, 0xff)) })
	plain("SetCReg(0,false,green80)", func(d ivg.Destination, set int) { d.SetCReg(0, false, rgba(0, 0x80, 0, 0x80)) })
	plain("SetCReg(1,false,blend)", func(d ivg.Destination, set int) { d.SetCReg(1, false, ivg.BlendColor(0x40, 0xc0, 0x80)) })
	plain("SetCReg(0,true,blend)", func(d ivg.Destination, set int) { d.SetCReg(0, true, ivg.BlendColor(0x80, 0xc9, 0x85)) })
	plain("SetCReg(0,true,pal3)", func(d ivg.Destination, set int) { d.SetCReg(0, true, ivg.PaletteIndexColor(3)) })
	plain("SetNReg(0,true,.)", func(d ivg.Destination, set int) { d.SetNReg(0, true, c07v(set, 1.5, 0.3)) }) // 1.5 is shortest as a coordinate
	plain("SetNReg(0,false,.)", func(d ivg.Destination, set int) { d.SetNReg(0, false, c07v(set, 0.75, 0.7)) })
	plain("SetNReg(1,false,.)", func(d ivg.Destination, set int) { d.SetNReg(1, false, c07v(set, 2, 2.1)) })
	plain("SetLOD(0,0)", func(d ivg.Destination, set int) { d.SetLOD(0, 0) })
	plain("SetLOD(0,+Inf)", func(d ivg.Destination, set int) { d.SetLOD(0, float32(math.Inf(1))) })
	plain("SetLOD(80,20)", func(d ivg.Destination, set int) { d.SetLOD(80, 20) }) // an inverted range: nothing is drawn
	plain("11xSetCReg(0,true)", func(d ivg.Destination, set int) {
		for i := 0; i < 11; i++ {
			d.SetCReg(0, true, rgba(uint8(i), 0, 0, 0xff))
		}
	})
	plain("Reset", func(d ivg.Destination, set int) { d.Reset(ivg.DefaultViewBox, ivg.DefaultPalette) })
	// a graphic abandoned inside a path with a run pending, then a new graphic on the same objects
	plain("abandon;Reset", func(d ivg.Destination, set int) {
		d.StartPath(0, 2, 2)
		d.RelLineTo(3, 1)
		d.RelLineTo(c07v(set, 1, 1.1), 4)
		d.Reset(ivg.DefaultViewBox, ivg.DefaultPalette)
	})
	plain("CSel()", func(d ivg.Destination, set int) { d.CSel() })
	plain("NSel()", func(d ivg.Destination, set int) { d.NSel() })
	ls = append(ls,
		c07Letter{"SetGradient(2 stops)", func(g *generate.Generator, set int) error {
			return g.SetGradient(generate.GradientShapeLinear, generate.GradientSpreadReflect, c07Stops2, generate.Aff3{c07v(set, 0.0625, 0.07), 0, 0.5, 0, 0, 0})
		}},
		c07Letter{"SetGradient(3 stops)", func(g *generate.Generator, set int) error {
			return g.SetGradient(generate.GradientShapeRadial, generate.GradientSpreadNone, c07Stops3, generate.Aff3{0.125, 0, 0, 0, c07v(set, 0.25, 0.21), 0})
		}},
		c07Letter{"SetLinearGradient", func(g *generate.Generator, set int) error {
			return g.SetLinearGradient(-8, 0, c07v(set, 8, 7.3), 0, generate.GradientSpreadPad, c07Stops2)
		}},
		c07Letter{"SetCircularGradient", func(g *generate.Generator, set int) error {
			return g.SetCircularGradient(0, 0, c07v(set, 8, 7.7), 0, generate.GradientSpreadRepeat, c07Stops3)
		}},
		c07Letter{"SetEllipticalGradient", func(g *generate.Generator, set int) error {
			return g.SetEllipticalGradient(0, 0, 8, 0, 0, c07v(set, 4, 4.4), generate.GradientSpreadPad, c07Stops2)
		}},
		c07Letter{"SetPathData(adj0)", func(g *generate.Generator, set int) error {
			if set == 0 {
				return g.SetPathData("M-8,-8 L8,-8 8,8 z", 0)
			}
			return g.SetPathData("M-8.1,-8 L8,-8.3 8.7,8 z", 0)
		}},
		c07Letter{"SetPathData(adj1)", func(g *generate.Generator, set int) error {
			return g.SetPathData("M-4,-4 h8 v8 q-4,4 -8,0 z", 1)
		}},
		c07Letter{"probe", func(g *generate.Generator, set int) error {
			g.StartPath(0, -12, -12)
			g.AbsLineTo(12, -12)
			// reading the selectors is not a styling operation: allowed inside an open path
			g.CSel()
			g.NSel()
			g.RelLineTo(c07v(set, -12, -11.9), 24)
			g.ClosePathEndPath()
			return nil
		}},
		// arcs whose two flags differ, relative and absolute
		c07Letter{"arcs", func(g *generate.Generator, set int) error {
			g.StartPath(1, -9, 0)
			g.RelArcTo(6, 4, 0.125, true, false, 10, c07v(set, 2, 2.2))
			g.AbsArcTo(5, 5, 0, false, true, 8, -6)
			g.RelArcTo(3, 7, 0.75, false, true, -4, -3)
			g.ClosePathAbsMoveTo(9, 9)
			g.RelLineTo(2, 0)
			g.AbsLineTo(10, 12)
			g.ClosePathRelMoveTo(-3, 1)
			g.RelHLineTo(-2)
			g.RelVLineTo(c07v(set, 2, 2.3))
			g.ClosePathEndPath()
			return nil
		}},
		// runs longer than one opcode can count (32 lines, 16 curves), and runs between 17 and 32
		c07Letter{"long runs", func(g *generate.Generator, set int) error {
			g.StartPath(2, -10, -10)
			for i := 0; i < 20; i++ {
				g.RelLineTo(1, float32(i%2))
			}
			for i := 0; i < 35; i++ {
				g.AbsLineTo(10-float32(i)*0.5, c07v(set, 0.25, 0.3)*float32(i%3))
			}
			for i := 0; i < 18; i++ {
				g.RelCubeTo(0.5, -1, 1, 1, 1.5, 0)
			}
			// zero-length steps between a curve and a smooth operation: the smooth operation starts from the pen
			g.RelHLineTo(0)
			g.RelSmoothCubeTo(1, 1, 2, 0)
			g.RelQuadTo(1, -1, 2, 0)
			g.RelVLineTo(0)
			g.RelSmoothQuadTo(1, 1)
			g.RelLineTo(0, 0)
			g.RelSmoothQuadTo(1, -1)
			// one-operand operations and close-and-moves repeated, with the same and with other operands
			g.RelHLineTo(1)
			g.RelHLineTo(1)
			g.AbsVLineTo(3)
			g.AbsVLineTo(3)
			g.RelVLineTo(-1)
			g.RelVLineTo(2)
			g.AbsHLineTo(4)
			g.AbsHLineTo(5)
			g.ClosePathRelMoveTo(1, 1)
			g.ClosePathRelMoveTo(1, 1)
			g.RelLineTo(2, 0)
			g.ClosePathAbsMoveTo(0, 0)
			g.ClosePathAbsMoveTo(0, 0)
			g.RelLineTo(1, 1)
			g.ClosePathEndPath()
			return nil
		}},
	)
	return ls
}()

type c07Case struct {
	Letters []int  `json:"letters"`
	Set     int    `json:"argset"`
	Logger  bool   `json:"logger"`
	Names   string `json:"names,omitempty"`
	// LoggerPair: [letter, letter, alt] of the logger transparency unit (letters of C01's alphabet)
	LoggerPair []int `json:"logger_pair,omitempty"`
	// Traffic: letters (indices into c07Traffic) of one history of the register-traffic exploration
	Traffic []int `json:"register_traffic,omitempty"`
}

func c07Names(ls []int) string {
	s := ""
	for i, l := range ls {
		if i > 0 {
			s += "; "
		}
		s += c07Letters[l].name
	}
	return s
}

func c07Depth(tier string) int { return 5 }

// c07Core: one or two representatives per kind of letter; the thorough tier explores
// histories of 6 letters over it (and all histories of <=5 over the full alphabet, as the quick tier).
var c07Core = func() []int {
	keep := map[string]bool{"SetCSel(10)": true, "SetCSel(63)": true, "SetCSel(74)": true, "SetNSel(10)": true, "SetNSel(63)": true, "SetNSel(201)": true,
		"SetCReg(0,true,red)": true, "SetCReg(1,false,blend)": true, "SetCReg(0,true,blend)": true, "SetNReg(0,true,.)": true, "SetNReg(1,false,.)": true,
		"11xSetCReg(0,true)": true, "Reset": true, "CSel()": true, "NSel()": true, "SetGradient(2 stops)": true, "SetLinearGradient": true, "SetCircularGradient": true,
		"SetPathData(adj1)": true, "probe": true, "arcs": true, "SetLOD(0,0)": true, "SetLOD(0,+Inf)": true, "SetLOD(80,20)": true, "long runs": true}
	var c []int
	for i, l := range c07Letters {
		if keep[l.name] {
			c = append(c, i)
		}
	}
	if len(c) != len(keep) {
		panic("c07Core: a core letter is missing from the alphabet")
	}
	return c
}()

func init() {
	nl := len(c07Letters)
	mc.Register(&mc.Check{
		ID:    "C07",
		Level: "model_checking",
		Rule: fmt.Sprintf("engine S: every history of <=3 letters over a %d-letter alphabet, extended by <=2 letters of a 25-letter core alphabet (thorough: every history of <=5 letters over the full alphabet with both argument sets, and every history of 6 letters over the core alphabet) (SetCSel/SetNSel at {0,9,10,62,63} and at arguments >= 64 (74, 201), incrementing and non-incrementing register writes incl. an incrementing write of a blend and of a palette index, CSel()/NSel() read-backs, Generator helpers SetGradient (2 and 3 stops), SetLinearGradient, SetCircularGradient, SetEllipticalGradient, SetPathData, a probe path with selector read-backs inside it, an arc path with unequal flags and both close-and-move operations, a path with runs of 20 and 35 lines and 18 curves and zero-length steps before smooth operations, SetLOD(0,0), SetLOD(0,+Inf) and the inverted SetLOD(80,20)); the Encoder of every other history is a zero-value one that is never Reset, and in every third history its owner calls Bytes() after every relative line, run in lock step through Generator->Renderer and Generator->Encoder->Decode->Renderer (histories <=3 also through DestinationLogger), two argument sets (dyadic, non-dyadic). ", nl) +
			"After every call the Encoder's and the Renderer's CSel()/NSel() must agree modulo 64 with each other and with the specification VM; helper return values must agree; at the end both recording rasterisers must hold the same calls and paints (bit-equal for the dyadic set, within the C01 tolerance otherwise). " +
			"states = histories executed, transitions = letters executed; non-trivial = history containing a gradient helper or an incrementing write followed by a read-back",
		Assumptions: []string{"non-dyadic argument set: rasteriser coordinates compared within 2^-17 relative to the raster size, gradient matrices within 2^-19 relative"},
		Units:       func(tier string) int { return nl * nl },
		Run: func(w *mc.W, u int) {
			D := c07Depth(w.Tier)
			seq := []int{u / nl, u % nl}
			st := &c07State{w: w}
			if u == 0 {
				c07LoggerTransparency(w, nil)
			}
			if u >= 1 && u <= 3 {
				c07RegisterTraffic(w, u-1, nil)
			}
			if u%nl == 0 {
				st.check(&c07Case{Letters: seq[:1], Set: 0, Logger: true})
				st.check(&c07Case{Letters: seq[:1], Set: 1})
			}
			var rc func()
			rc = func() {
				if w.Expired() {
					return
				}
				st.check(&c07Case{Letters: seq, Set: 0, Logger: len(seq) <= 3})
				if len(seq) <= 3 || w.Thorough {
					st.check(&c07Case{Letters: seq, Set: 1})
				}
				if len(seq) == D {
					return
				}
				if !w.Thorough && len(seq) >= 3 {
					// quick tier: the fourth and fifth letter come from the core alphabet
					for _, l := range c07Core {
						seq = append(seq, l)
						rc()
						seq = seq[:len(seq)-1]
					}
					return
				}
				for l := 0; l < nl; l++ {
					seq = append(seq, l)
					rc()
					seq = seq[:len(seq)-1]
				}
			}
			rc()
			w.Depth(D)
			if w.Thorough {
				// histories of exactly 6 letters over the core alphabet (units whose two leading letters are core)
				isCore := map[int]bool{}
				for _, l := range c07Core {
					isCore[l] = true
				}
				if isCore[seq[0]] && isCore[seq[1]] {
					var rc6 func()
					rc6 = func() {
						if len(seq) == 6 {
							if !w.Expired() {
								st.check(&c07Case{Letters: seq, Set: 0})
								st.check(&c07Case{Letters: seq, Set: 1})
							}
							return
						}
						for _, l := range c07Core {
							seq = append(seq, l)
							rc6()
							seq = seq[:len(seq)-1]
						}
					}
					rc6()
					w.Depth(6)
				}
			}
		},
		Replay: func(w *mc.W, data json.RawMessage) error {
			var cs c07Case
			if err := unmarshalCase(data, &cs); err != nil {
				return err
			}
			if cs.LoggerPair != nil {
				c07LoggerTransparency(w, cs.LoggerPair)
				return nil
			}
			if cs.Traffic != nil {
				c07TrafficOne(w, cs.Traffic)
				return nil
			}
			(&c07State{w: w}).check(&cs)
			return nil
		},
		Post: postDistinct(50),
	})
}

// c07Tap is an Encoder whose owner calls Bytes() after every RelLineTo.
type c07Tap struct{ *encode.Encoder }

func (t c07Tap) RelLineTo(x, y float32) {
	t.Encoder.RelLineTo(x, y)
	t.Encoder.Bytes()
}

type c07State struct {
	w *mc.W
}

var c07Rect = image.Rect(0, 0, 48, 64)

func (st *c07State) check(cs *c07Case) {
	w := st.w
	w.Eval()
	w.State(1)
	w.Transition(int64(len(cs.Letters)))
	names := c07Names(cs.Letters)
	fail := func(key, what string) {
		c := *cs
		c.Letters = append([]int(nil), cs.Letters...)
		c.Names = names
		w.Fail(key, fmt.Sprintf("history [%s] (argument set %d): %s", names, cs.Set, what), c)
	}
	// pipeline 1: Generator -> recorder -> Renderer
	var z1 render.Renderer
	var ras1 rec.Raster
	z1.SetRasterizer(&ras1, c07Rect)
	rd1 := &rec.Dest{Next: &z1, NoPal: true}
	var g1 generate.Generator
	g1.SetDestination(rd1)
	g1.Reset(ivg.DefaultViewBox, ivg.DefaultPalette)
	// pipeline 2: Generator -> Encoder
	var e encode.Encoder
	var g2 generate.Generator
	sum := 0
	for _, l := range cs.Letters {
		sum += l
	}
	if sum%3 == 1 {
		// the caller looks at the bytes so far after every relative line, also inside open paths
		g2.SetDestination(c07Tap{&e})
	} else {
		g2.SetDestination(&e)
	}
	if sum%2 == 0 {
		g2.Reset(ivg.DefaultViewBox, ivg.DefaultPalette)
	} // else: a zero-value Encoder, which stands for the default metadata without being Reset
	e.HighResolutionCoordinates = cs.Set == 1
	// pipeline 3 (optional): Generator -> DestinationLogger -> Renderer
	var z3 render.Renderer
	var ras3 rec.Raster
	var g3 generate.Generator
	var lg *ivg.DestinationLogger
	var e4 encode.Encoder // pipeline 4: Generator -> DestinationLogger (alternative format) -> Encoder
	var g4 generate.Generator
	if cs.Logger {
		z3.SetRasterizer(&ras3, c07Rect)
		lg = &ivg.DestinationLogger{Destination: &z3}
		g3.SetDestination(lg)
		g3.Reset(ivg.DefaultViewBox, ivg.DefaultPalette)
		g4.SetDestination(&ivg.DestinationLogger{Destination: &e4, Alt: true})
		g4.Reset(ivg.DefaultViewBox, ivg.DefaultPalette)
		e4.HighResolutionCoordinates = cs.Set == 1
	}
	var vm ref.VM
	vm.Reset(ivg.DefaultPalette)
	seen := 1 // calls of rd1 already mirrored into the VM (Reset)
	nt := false
	sawIncr := false
	for i, l := range cs.Letters {
		L := &c07Letters[l]
		err1 := L.run(&g1, cs.Set)
		err2 := L.run(&g2, cs.Set)
		if cs.Logger {
			if err3 := L.run(&g3, cs.Set); err3 != err1 {
				fail("logger:helper-result", fmt.Sprintf("letter %d %s returns %v through DestinationLogger, %v without", i, L.name, err3, err1))
				return
			}
			if err4 := L.run(&g4, cs.Set); err4 != err2 {
				fail("logger:helper-result", fmt.Sprintf("letter %d %s returns %v through DestinationLogger->Encoder, %v without the logger", i, L.name, err4, err2))
				return
			}
			if L.name == "Reset" || L.name == "abandon;Reset" {
				e4.HighResolutionCoordinates = cs.Set == 1
			}
		}
		if err1 != err2 {
			fail("helper-result:"+L.name, fmt.Sprintf("letter %d %s returns %v on the Renderer pipeline but %v on the Encoder pipeline", i, L.name, err1, err2))
			return
		}
		if L.name == "Reset" || L.name == "abandon;Reset" {
			// a new graphic on the same objects: the Encoder forgets the earlier stream, so does the comparison
			vm.Reset(ivg.DefaultPalette)
			ras1.ResetLog()
			ras3.ResetLog()
			e.HighResolutionCoordinates = cs.Set == 1
		}
		for ; seen < len(rd1.Calls); seen++ {
			c := &rd1.Calls[seen]
			switch c.M {
			case rec.MSetCSel:
				vm.SetCSel(c.Adj)
			case rec.MSetNSel:
				vm.SetNSel(c.Adj)
			case rec.MSetCReg:
				k, d := rec.ColorParts(c.C)
				vm.SetCReg(c.Adj, c.Incr, ref.Color{Kind: k, D: d})
				sawIncr = sawIncr || c.Incr
			case rec.MSetNReg:
				vm.SetNReg(c.Adj, c.Incr, c.A[0])
				sawIncr = sawIncr || c.Incr
			}
		}
		ec, en := e.CSel(), e.NSel()
		rc, rn := z1.CSel(), z1.NSel()
		if ec&63 != vm.CSel || en&63 != vm.NSel {
			fail("encoder-selector:"+L.name, fmt.Sprintf("after letter %d %s the Encoder reports CSEL=%d NSEL=%d, the decoding machine will hold CSEL=%d NSEL=%d", i, L.name, ec, en, vm.CSel, vm.NSel))
			return
		}
		if rc&63 != vm.CSel || rn&63 != vm.NSel {
			fail("renderer-selector:"+L.name, fmt.Sprintf("after letter %d %s the Renderer reports CSEL=%d NSEL=%d, the machine holds CSEL=%d NSEL=%d", i, L.name, rc, rn, vm.CSel, vm.NSel))
			return
		}
		if lg != nil {
			if lc, ln := lg.CSel(), lg.NSel(); lc&63 != vm.CSel || ln&63 != vm.NSel {
				fail("logger:selector", fmt.Sprintf("after letter %d %s the DestinationLogger reports CSEL=%d NSEL=%d, the machine holds CSEL=%d NSEL=%d", i, L.name, lc, ln, vm.CSel, vm.NSel))
				return
			}
		}
		if l >= len(c07Letters)-8 && l < len(c07Letters)-3 {
			nt = true
		}
		if sawIncr && (L.name == "CSel()" || L.name == "NSel()") {
			nt = true
		}
	}
	bs, err := e.Bytes()
	if err != nil {
		fail("encoder-error", "Bytes(): "+err.Error())
		return
	}
	var z2 render.Renderer
	var ras2 rec.Raster
	z2.SetRasterizer(&ras2, c07Rect)
	if derr := decode.Decode(&z2, bs); derr != nil {
		fail("decode-error", derr.Error())
		return
	}
	w.Trace()
	if cs.Logger {
		// (with the tap the runs of pipeline 2 are cut where Bytes() was called: other bytes, same meaning)
		if b4, err4 := e4.Bytes(); err4 != nil || (sum%3 != 1 && !bytes.Equal(b4, bs)) {
			fail("logger:bytes-differ", fmt.Sprintf("through DestinationLogger the Encoder yields %x (err %v), without it %x", b4, err4, bs))
			return
		}
		if d := c17DiffRas(ras3.Calls, ras1.Calls); d != "" {
			fail("logger:raster-differs", "through DestinationLogger: "+d)
			return
		}
	}
	if cs.Set == 0 {
		// numerically equal: the encoder may turn -0 into +0
		if d := c07DiffTolX(ras2.Calls, ras1.Calls, 0); d != "" {
			fail("pipelines-differ", "via Encoder+Decode vs direct: "+d)
			return
		}
	} else if d := c07DiffTol(ras2.Calls, ras1.Calls); d != "" {
		fail("pipelines-differ", "via Encoder+Decode vs direct (beyond quantisation): "+d)
		return
	}
	h := mc.NewHasher()
	for _, l := range cs.Letters {
		h.Byte(byte(l))
	}
	h.Byte(byte(cs.Set))
	w.Outcome(h.Sum(), nt)
	if nt && w.WantSample() && len(cs.Letters) >= 3 {
		w.Sample(map[string]any{"history": names, "argset": cs.Set, "stream": hexShort(bs), "rasteriser_calls": len(ras1.Calls)})
	}
}

func c07DiffTol(got, want []rec.RCall) string { return c07DiffTolX(got, want, 1) }

// c07DiffTolX: f = 0 demands numeric equality, f = 1 the quantisation tolerance.
func c07DiffTolX(got, want []rec.RCall, f float64) string {
	if len(got) != len(want) {
		return fmt.Sprintf("%d rasteriser calls vs %d", len(got), len(want))
	}
	relClose := func(a, b, scale, tol float64) bool {
		if a == b || (a != a && b != b) {
			return true
		}
		return math.Abs(a-b) <= f*tol*math.Max(scale, math.Max(math.Abs(a), math.Abs(b)))
	}
	for i := range got {
		g, x := &got[i], &want[i]
		if g.K != x.K || g.W != x.W || g.H != x.H || g.R != x.R || g.SP != x.SP {
			return fmt.Sprintf("call %d is %s vs %s", i, g, x)
		}
		for j := range g.A {
			if !relClose(float64(g.A[j]), float64(x.A[j]), 64, 1.0/(1<<17)) {
				return fmt.Sprintf("call %d is %s vs %s", i, g, x)
			}
		}
		if g.K == rec.RDraw {
			p, q := &g.Paint, &x.Paint
			if p.Kind != q.Kind || p.Flat != q.Flat || p.Shape != q.Shape || p.Spread != q.Spread || len(p.Colors) != len(q.Colors) {
				return fmt.Sprintf("paint %d is %s vs %s", i, *p, *q)
			}
			for j := range p.Colors {
				if p.Colors[j] != q.Colors[j] || !relClose(p.Offsets[j], q.Offsets[j], 1, 1.0/(1<<19)) {
					return fmt.Sprintf("paint %d is %s vs %s", i, *p, *q)
				}
			}
			for j := range p.M {
				if !relClose(p.M[j], q.M[j], 1.0/64, 1.0/(1<<19)) {
					return fmt.Sprintf("paint %d is %s vs %s", i, *p, *q)
				}
			}
		}
	}
	return ""
}

// c07LoggerTransparency: every Destination method, with arguments that tell its parameters apart, reaches
// the destination behind a DestinationLogger (either output format) exactly as it was called, and the
// read-backs come from that destination. Programs: every ordered pair of letters of C01's alphabet (all
// 28 mutating methods, every ADJ, both arcs) in a protocol-respecting frame.
func c07LoggerTransparency(w *mc.W, only []int) {
	frame := func(l c01Letter) (pre, post []rec.Call) {
		if l.drawing {
			return []rec.Call{{M: rec.MStartPath, A: [6]float32{1, 2}}}, []rec.Call{{M: rec.MEndPath}}
		}
		return nil, nil
	}
	for i, a := range c01L {
		for j, b := range c01L {
			for alt := 0; alt < 2; alt++ {
				if only != nil && (i != only[0] || j != only[1] || alt != only[2]) {
					continue
				}
				if a.read != 0 && a.read != 'c' && a.read != 'n' || b.read != 0 && b.read != 'c' && b.read != 'n' {
					continue // assignments of the Encoder's resolution flag are no Destination calls
				}
				if a.drawing != b.drawing || a.call.M == rec.MEndPath || b.call.M == rec.MStartPath && a.call.M == rec.MStartPath {
					continue
				}
				w.Eval()
				var d1, d2 rec.Dest
				var e1, e2 encode.Encoder
				d1.Next, d2.Next = &e1, &e2
				lg := &ivg.DestinationLogger{Destination: &d2, Alt: alt == 1}
				var reads1, reads2 []uint8
				run := func(d ivg.Destination, reads *[]uint8) {
					d.Reset(c10CustomVB, c10CustomPal)
					pre, post := frame(a)
					for k := range pre {
						pre[k].Apply(d)
					}
					for _, l := range []c01Letter{a, b} {
						switch l.read {
						case 'c':
							*reads = append(*reads, d.CSel())
						case 'n':
							*reads = append(*reads, d.NSel())
						default:
							l.call.Apply(d)
						}
					}
					if a.call.M == rec.MStartPath {
						post = []rec.Call{{M: rec.MEndPath}}
					}
					if b.call.M == rec.MEndPath {
						post = nil
					}
					for k := range post {
						post[k].Apply(d)
					}
				}
				run(&d1, &reads1)
				run(lg, &reads2)
				cs := c07Case{LoggerPair: []int{i, j, alt}}
				if k := firstDiff(d1.Calls, d2.Calls); k >= 0 {
					w.Fail("logger:call-changed:"+methodAt(d1.Calls, k), fmt.Sprintf("behind a DestinationLogger (Alt=%v) call %d arrives as %s, it was %s", alt == 1, k, callAt(d2.Calls, k), callAt(d1.Calls, k)), cs)
				} else if fmt.Sprint(reads1) != fmt.Sprint(reads2) {
					w.Fail("logger:readback", fmt.Sprintf("read-backs through a DestinationLogger %v, from the destination itself %v", reads2, reads1), cs)
				}
			}
		}
	}
}

// ---- register traffic ------------------------------------------------------------------------------
//
// Whatever an Encoder does with writes it considers redundant, the machine state that the byte stream
// produces must be the state the calls produce: deeper histories over a tiny alphabet of selector moves
// and register writes that name the *same* registers in different ways (ADJ 0 from selector 9, ADJ 1 from
// selector 10, incrementing) with the same and with other values, and level-of-detail writes that restate
// or change the range. Every history is encoded by a zero-value Encoder, decoded, and the decoded calls
// are run on the reference machine beside the original calls: all 64+64 registers, both selectors and
// the level-of-detail range must agree.
var c07Traffic = func() []rec.Call {
	x, y := rgba(0xff, 0, 0, 0xff), rgba(0x30, 0x66, 0x07, 0x80)
	return []rec.Call{
		{M: rec.MSetCSel, Adj: 9}, {M: rec.MSetCSel, Adj: 10},
		{M: rec.MSetCReg, C: x}, {M: rec.MSetCReg, C: y}, {M: rec.MSetCReg, Adj: 1, C: x}, {M: rec.MSetCReg, Adj: 1, C: y}, {M: rec.MSetCReg, Incr: true, C: x},
		{M: rec.MSetNSel, Adj: 9}, {M: rec.MSetNSel, Adj: 10},
		{M: rec.MSetNReg, A: [6]float32{0.5}}, {M: rec.MSetNReg, A: [6]float32{7}}, {M: rec.MSetNReg, Adj: 1, A: [6]float32{0.5}}, {M: rec.MSetNReg, Adj: 1, A: [6]float32{7}}, {M: rec.MSetNReg, Incr: true, A: [6]float32{0.5}},
		{M: rec.MSetLOD, A: [6]float32{1, 2}}, {M: rec.MSetLOD, A: [6]float32{0, float32(math.Inf(1))}},
	}
}()

// family 0: the colour letters (0..6) to depth 7; family 1: the number letters (7..13) to depth 7;
// family 2: all 16 letters to depth 4.
func c07RegisterTraffic(w *mc.W, family int, _ []int) {
	var letters []int
	depth := 7
	switch family {
	case 0:
		letters = []int{0, 1, 2, 3, 4, 5, 6}
	case 1:
		letters = []int{7, 8, 9, 10, 11, 12, 13}
	default:
		for i := range c07Traffic {
			letters = append(letters, i)
		}
		depth = 4
	}
	var seq []int
	var rc func()
	rc = func() {
		if len(seq) > 0 {
			c07TrafficOne(w, seq)
		}
		if len(seq) == depth || w.Expired() {
			return
		}
		for _, l := range letters {
			seq = append(seq, l)
			rc()
			seq = seq[:len(seq)-1]
		}
	}
	rc()
}

func c07TrafficVM(calls []rec.Call) *ref.VM {
	vm := &ref.VM{}
	vm.Reset(ivg.DefaultPalette)
	vm.LOD0, vm.LOD1 = 0, float32(math.Inf(1))
	for i := range calls {
		c := &calls[i]
		switch c.M {
		case rec.MSetCSel:
			vm.SetCSel(c.Adj)
		case rec.MSetNSel:
			vm.SetNSel(c.Adj)
		case rec.MSetCReg:
			k, d := rec.ColorParts(c.C)
			vm.SetCReg(c.Adj, c.Incr, ref.Color{Kind: k, D: d})
		case rec.MSetNReg:
			vm.SetNReg(c.Adj, c.Incr, c.A[0])
		case rec.MSetLOD:
			vm.SetLOD(c.A[0], c.A[1])
		}
	}
	return vm
}

func c07TrafficOne(w *mc.W, seq []int) {
	w.Eval()
	w.State(1)
	w.Transition(int64(len(seq)))
	calls := make([]rec.Call, len(seq))
	var e encode.Encoder
	for i, l := range seq {
		calls[i] = c07Traffic[l]
		calls[i].Apply(&e)
	}
	cs := func() c07Case { return c07Case{Traffic: append([]int(nil), seq...), Names: rec.CallsString(calls)} }
	b, err := e.Bytes()
	if err != nil {
		w.Fail("traffic:encode-error", fmt.Sprintf("history [%s]: %v", rec.CallsString(calls), err), cs())
		return
	}
	var rd rec.Dest
	rd.NoPal = true
	if err := decode.Decode(&rd, b); err != nil {
		w.Fail("traffic:decode-error", fmt.Sprintf("history [%s]: stream %x: %v", rec.CallsString(calls), b, err), cs())
		return
	}
	w.Trace()
	want, got := c07TrafficVM(calls), c07TrafficVM(rd.Calls)
	if *want != *got {
		what := "selectors or level-of-detail range"
		for i := 0; i < 64; i++ {
			if want.CReg[i] != got.CReg[i] {
				what = fmt.Sprintf("CREG[%d] is %v after the calls, %v after the stream", i, want.CReg[i], got.CReg[i])
				break
			}
			if want.NReg[i] != got.NReg[i] {
				what = fmt.Sprintf("NREG[%d] is %v after the calls, %v after the stream", i, want.NReg[i], got.NReg[i])
				break
			}
		}
		w.Fail("traffic:machine-state-differs", fmt.Sprintf("history [%s]: stream %x decodes to [%s]: %s", rec.CallsString(calls), b, rec.CallsString(rd.Calls), what), cs())
	}
	if len(seq) <= 3 {
		h := mc.NewHasher()
		h.Str("traffic")
		for _, l := range seq {
			h.Byte(byte(l))
		}
		w.Outcome(h.Sum(), true)
	}
}
