//go:build verifsched

package props

import (
	"fmt"
	"reflect"
	"sort"
	"unsafe"

	"github.com/reactivego/ivg/verifrt"
	"verif/bodies"
	"verif/mc"
	"verif/sched"
)

func init() {
	c18RunScenario = c18Run
	c18ReplayScenario = c18Replay
}

// ---- shared-state census -------------------------------------------------------

var c18PtrFree = map[reflect.Type]bool{}

func ptrFree(t reflect.Type) bool {
	if v, ok := c18PtrFree[t]; ok {
		return v
	}
	r := false
	switch t.Kind() {
	case reflect.Bool, reflect.Int, reflect.Int8, reflect.Int16, reflect.Int32, reflect.Int64, reflect.Uint, reflect.Uint8, reflect.Uint16,
		reflect.Uint32, reflect.Uint64, reflect.Uintptr, reflect.Float32, reflect.Float64, reflect.Complex64, reflect.Complex128:
		r = true
	case reflect.Array:
		r = ptrFree(t.Elem())
	case reflect.Struct:
		r = true
		for i := 0; i < t.NumField(); i++ {
			if !ptrFree(t.Field(i).Type) {
				r = false
			}
		}
	}
	c18PtrFree[t] = r
	return r
}

func hashRaw(h *mc.Hasher, p unsafe.Pointer, n uintptr) {
	b := unsafe.Slice((*byte)(p), n)
	for _, x := range b {
		h.Byte(x)
	}
}

// censusValue deep-hashes an addressable value.
func censusValue(h *mc.Hasher, v reflect.Value, depth int) {
	if depth > 6 {
		return
	}
	t := v.Type()
	if ptrFree(t) && v.CanAddr() {
		hashRaw(h, v.Addr().UnsafePointer(), t.Size())
		return
	}
	switch v.Kind() {
	case reflect.String:
		h.Str(v.String())
	case reflect.Slice:
		h.U64(uint64(v.Pointer()))
		h.U32(uint32(v.Len()))
		h.U32(uint32(v.Cap()))
		if v.Cap() == 0 {
			return
		}
		if ptrFree(t.Elem()) {
			// up to capacity: an in-place append writes beyond len
			hashRaw(h, unsafe.Pointer(v.Pointer()), uintptr(v.Cap())*t.Elem().Size())
			return
		}
		for i := 0; i < v.Len(); i++ {
			censusValue(h, v.Index(i), depth+1)
		}
	case reflect.Array:
		for i := 0; i < v.Len(); i++ {
			censusValue(h, v.Index(i), depth+1)
		}
	case reflect.Struct:
		for i := 0; i < v.NumField(); i++ {
			censusValue(h, v.Field(i), depth+1)
		}
	case reflect.Ptr:
		h.U64(uint64(v.Pointer()))
		if !v.IsNil() {
			censusValue(h, v.Elem(), depth+1)
		}
	case reflect.Interface:
		if v.IsNil() {
			h.Byte(0)
			return
		}
		h.Str(v.Elem().Type().String())
		e := v.Elem()
		switch e.Kind() {
		case reflect.Ptr:
			h.U64(uint64(e.Pointer()))
			if !e.IsNil() {
				censusValue(h, e.Elem(), depth+1)
			}
		case reflect.String:
			h.Str(e.String())
		default:
			h.Str(fmt.Sprint(e.Kind()))
		}
	case reflect.Map:
		h.U64(uint64(v.Pointer()))
		h.U32(uint32(v.Len()))
		var sum uint64
		it := v.MapRange()
		for it.Next() {
			eh := mc.NewHasher()
			if it.Key().Kind() == reflect.String {
				eh.Str(it.Key().String())
			}
			if it.Value().Kind() == reflect.String {
				eh.Str(it.Value().String())
			} else if it.Value().CanInt() {
				eh.U64(uint64(it.Value().Int()))
			}
			sum += eh.Sum()
		}
		h.U64(sum)
	case reflect.Func, reflect.Chan, reflect.UnsafePointer:
		h.U64(uint64(v.Pointer()))
	}
}

type census struct {
	vars  []reflect.Value
	names []string
	sh    *bodies.Shared
}

func newCensus(sh *bodies.Shared) *census {
	c := &census{sh: sh}
	var pkgs []string
	for p := range verifrt.Globals {
		pkgs = append(pkgs, p)
	}
	sort.Strings(pkgs)
	for _, p := range pkgs {
		var names []string
		for n := range verifrt.Globals[p] {
			names = append(names, n)
		}
		sort.Strings(names)
		for _, n := range names {
			c.vars = append(c.vars, reflect.ValueOf(verifrt.Globals[p][n]).Elem())
			c.names = append(c.names, p+"."+n)
		}
	}
	return c
}

func (c *census) hash() uint64 {
	h := mc.NewHasher()
	for _, v := range c.vars {
		censusValue(&h, v, 0)
	}
	for _, g := range c.sh.Graphics {
		h.Bytes(g[:cap(g)])
	}
	hashRaw(&h, unsafe.Pointer(&c.sh.Palette), unsafe.Sizeof(c.sh.Palette))
	for i := range c.sh.Stops {
		st := &c.sh.Stops[i]
		h.F32(st.Offset)
		r, g, b, a := st.Color.RGBA()
		h.U32(r)
		h.U32(g)
		h.U32(b)
		h.U32(a)
	}
	h.U32(uint32(len(c.sh.Options)))
	// the option list up to its capacity (a decoder appending to the list it was handed
	// writes into the caller's array)
	for _, o := range c.sh.Options[:cap(c.sh.Options)] {
		h.U64(uint64(reflect.ValueOf(o).Pointer()))
	}
	return h.Sum()
}

// changed names the first census variable whose hash differs from the reference.
func (c *census) changed(ref []uint64) string {
	for i, v := range c.vars {
		h := mc.NewHasher()
		censusValue(&h, v, 0)
		if h.Sum() != ref[i] {
			return c.names[i]
		}
	}
	return "shared input (source slice, palette or options)"
}

func (c *census) perVar() []uint64 {
	r := make([]uint64, len(c.vars))
	for i, v := range c.vars {
		h := mc.NewHasher()
		censusValue(&h, v, 0)
		r[i] = h.Sum()
	}
	return r
}

// ---- scenario exploration ------------------------------------------------------

func c18Bodies(sh *bodies.Shared, sc c18Scenario) func() []func() string {
	return func() []func() string {
		var fs []func() string
		for i, b := range sc.Bodies {
			B, g := bodies.Bodies[b], sc.Graphics[i]
			fs = append(fs, func() string { return B.Run(sh, g) })
		}
		return fs
	}
}

// c18Baseline is the census of the package-level variables taken before the
// harness calls anything of ivg (lazily filled caches must not be warmed first).
var c18Baseline []uint64
var c18BaselineCensus *census

func c18TakeBaseline() {
	if c18BaselineCensus == nil {
		c18BaselineCensus = newCensus(&bodies.Shared{})
		c18Baseline = c18BaselineCensus.perVar()
	}
}

func c18BaselineChanged() string {
	now := c18BaselineCensus.perVar()
	for i := range now {
		if now[i] != c18Baseline[i] {
			return c18BaselineCensus.names[i]
		}
	}
	return ""
}

func c18Run(w *mc.W, sc c18Scenario, stripe int) {
	c18TakeBaseline()
	sh := bodies.NewShared()
	cen := newCensus(sh)
	shHash := sh.Hash()
	// solo results (no scheduler)
	solo := make([]string, len(sc.Bodies))
	soloSh := bodies.NewShared()
	for i, b := range sc.Bodies {
		solo[i] = bodies.Bodies[b].Run(soloSh, sc.Graphics[i])
	}
	if v := c18BaselineChanged(); v != "" || soloSh.Hash() != shHash {
		if v == "" {
			v = "shared input (source slice or palette)"
		}
		w.Fail("shared-state-written:"+v, fmt.Sprintf("scenario %s: running the bodies alone, one after the other, already writes %s (a package-level variable or shared input changed since process start)", sc, v), c18Case{Kind: "schedule", Scenario: sc})
		return
	}
	start := cen.hash()
	per := cen.perVar()
	w.CountMax("census_variables", int64(len(cen.vars)))
	mk := c18Bodies(sh, sc)
	// determinism: the deviation-free schedule twice
	if stripe == 0 {
		a := sched.Run(mk(), nil, nil, false)
		b := sched.Run(mk(), nil, nil, false)
		if a.TraceH != b.TraceH || a.Steps != b.Steps {
			w.HarnessError("scenario %s is not deterministic under the scheduler (%d vs %d steps)", sc, a.Steps, b.Steps)
			return
		}
		if cen.hash() != start {
			w.Fail("census-changed:"+cen.changed(per), fmt.Sprintf("scenario %s: sequential execution already modifies shared state (%s)", sc, cen.changed(per)), c18Case{Kind: "schedule", Scenario: sc})
			return
		}
	}
	violated := ""
	var violStep int
	onSwitch := func(step int) {
		if violated == "" && cen.hash() != start {
			violated = cen.changed(per)
			violStep = step
		}
	}
	mkCase := func(devs []sched.Dev, what string) c18Case {
		cs := c18Case{Kind: "schedule", Scenario: sc, Desc: what}
		for _, d := range devs {
			cs.Devs = append(cs.Devs, c18Dev{d.Point, d.Alt})
		}
		return cs
	}
	sched.Explore(mk, sc.Bound, sc.Occ, stripe, c18Stripes, onSwitch, func(devs []sched.Dev, e *sched.Exec) bool {
		w.Eval()
		w.Trace()
		w.State(int64(len(e.Running)))
		w.Transition(int64(e.Steps))
		if e.Diverged != "" {
			w.HarnessError("scenario %s: %s", sc, e.Diverged)
			return false
		}
		if ps := e.Panics(); len(ps) > 0 {
			w.Fail("panic-under-interleaving", fmt.Sprintf("scenario %s, schedule %v: %s", sc, devs, ps[0]), mkCase(devs, ps[0]))
			return false
		}
		res := e.Results()
		for i := range res {
			if res[i] != solo[i] {
				w.Fail("result-differs:"+bodies.Bodies[sc.Bodies[i]].Name, fmt.Sprintf("scenario %s, schedule %v: body %d (%s) produced a result different from its solo run", sc, devs, i, bodies.Bodies[sc.Bodies[i]].Name), mkCase(devs, "result differs"))
				return false
			}
		}
		if violated == "" && cen.hash() != start {
			violated = cen.changed(per)
			violStep = e.Steps
		}
		if violated != "" {
			w.Fail("shared-state-written:"+violated, fmt.Sprintf("scenario %s, schedule %v: %s was written (observed at step %d)", sc, devs, violated, violStep), mkCase(devs, violated))
			// restore is impossible in general: stop this scenario
			return false
		}
		// interleaving measure: number of context switches between runnable threads
		if e.Switches > len(sc.Bodies) {
			w.Count("interleaved_schedules", 1)
		}
		h := mc.NewHasher()
		h.U64(e.TraceH)
		w.Outcome(h.Sum(), e.Switches > len(sc.Bodies))
		if w.WantSample() && len(devs) == 2 {
			w.Sample(map[string]any{"scenario": sc.String(), "deviations": devs, "steps": e.Steps, "context_switches": e.Switches})
		}
		return !w.Expired()
	})
	w.Depth(sc.Bound)
}

func c18Replay(w *mc.W, cs *c18Case) {
	c18TakeBaseline()
	sh := bodies.NewShared()
	cen := newCensus(sh)
	sc := cs.Scenario
	solo := make([]string, len(sc.Bodies))
	for i, b := range sc.Bodies {
		solo[i] = bodies.Bodies[b].Run(sh, sc.Graphics[i])
	}
	if v := c18BaselineChanged(); v != "" {
		w.Fail("shared-state-written:"+v, v+" was written by a sequential run", cs)
		return
	}
	start := cen.hash()
	per := cen.perVar()
	var devs []sched.Dev
	for _, d := range cs.Devs {
		devs = append(devs, sched.Dev{Point: d.Point, Alt: d.Alt})
	}
	violated := ""
	e := sched.Run(c18Bodies(sh, sc)(), devs, func(step int) {
		if violated == "" && cen.hash() != start {
			violated = cen.changed(per)
		}
	}, true)
	if violated == "" && cen.hash() != start {
		violated = cen.changed(per)
	}
	if ps := e.Panics(); len(ps) > 0 {
		w.Fail("panic-under-interleaving", ps[0], cs)
	}
	for i, r := range e.Results() {
		if r != solo[i] {
			w.Fail("result-differs:"+bodies.Bodies[sc.Bodies[i]].Name, fmt.Sprintf("body %d result differs from its solo run under schedule %v", i, devs), cs)
		}
	}
	if violated != "" {
		w.Fail("shared-state-written:"+violated, violated+" was written", cs)
	}
}
