package props

import (
	"bytes"
	"encoding/hex"
	"encoding/json"
	"fmt"
	"image"
	"runtime/debug"
	"strings"

	"github.com/reactivego/ivg/decode"
	"github.com/reactivego/ivg/encode"
	"github.com/reactivego/ivg/raster/vec"
	"github.com/reactivego/ivg/render"
	"verif/mc"
	"verif/rec"
	"verif/ref"
)

// C02 — decoding arbitrary bytes is safe, bounded, and delivers nothing early.

func init() {
	mc.Register(&mc.Check{
		ID:               "C02",
		Level:            "fault_enumeration",
		CrashIsViolation: true,
		Rule: "engines B+F (same input space as C03: tiny strings, every opcode x width combination x truncation, sequences, metadata shapes incl. adversarial counts/lengths, non-finite operands, every prefix and single-byte substitution of corpus files). " +
			"Every input goes through Decode into a recorder, a real Encoder, a real Renderer over a recording rasteriser (two rectangles; the gradient inputs also over raster/vec onto pixels), DecodeViewBox and Disassemble; one 16 MiB run of selector opcodes goes through Decode into a counting destination. Invariants: no panic, termination (watchdog), input unmodified, error is nil or DecodeError, " +
			"nothing delivered unless metadata valid, first call Reset, calls-1 <= bytes after metadata, <=4 segments per drawing op, <=2 other rasteriser calls per path op, prefix monotonicity (all prefixes for inputs <=48 bytes and all corpus prefixes). " +
			"distinct = hash of (error, number of calls, call kinds); non-trivial = input is malformed (rejected) after delivering at least one call",
		Assumptions: []string{"a case that makes no progress for 120 s is reported as non-termination", "hard process crashes (fatal error) are reported by the driver with the unit name"},
		Units:       func(tier string) int { return len(genUnitsC02(tier)) },
		Run: func(w *mc.W, u int) {
			unit := genUnitsC02(w.Tier)[u]
			st := newC02State()
			var cur []byte
			w.InFlight(func() string {
				if len(cur) <= 1<<16 {
					return unit.Name + " " + hex.EncodeToString(cur) // replayable (a stall is confirmed by replaying it)
				}
				return unit.Name + " " + hexShort(cur)
			})
			hist := &byteHistory
			unit.Each(func(b []byte) bool {
				cur = b
				if w.Journaling() {
					w.JournalCase(func() string { return hex.EncodeToString(b) })
				}
				b = hist.begin(w, b, unit.Name)
				c02Check(w, st, b, unit.Name)
				hist.end(histOK)
				return !w.Expired()
			})
		},
		Replay: func(w *mc.W, data json.RawMessage) error {
			var sr struct {
				Kind     string `json:"kind"`
				InFlight string `json:"in_flight"`
			}
			if json.Unmarshal(data, &sr) == nil && sr.Kind == "stall" {
				// "unit hex": run the input again; if it hangs again the driver's replay timeout confirms it
				if i := strings.LastIndexByte(sr.InFlight, ' '); i >= 0 {
					if b, err := hex.DecodeString(sr.InFlight[i+1:]); err == nil {
						c02Check(w, newC02State(), b, sr.InFlight[:i])
						return nil
					}
				}
				return fmt.Errorf("stall case without a replayable input: %.80s", sr.InFlight)
			}
			var cr struct{ Kind, Case string }
			if json.Unmarshal(data, &cr) == nil && cr.Kind == "crash" {
				b, _ := hex.DecodeString(cr.Case)
				c02Check(w, newC02State(), b, "crash-replay") // dies again if the crash is real
				return nil
			}
			return bytesReplay(func() func(w *mc.W, b []byte, unit string) {
				st := newC02State()
				return func(w *mc.W, b []byte, unit string) {
					if strings.HasPrefix(unit, "c02only/") {
						// the case records only the head of a very long input: regenerate it
						for _, x := range genUnitsC02("quick") {
							if x.Name == unit {
								x.Each(func(b []byte) bool { c02Check(w, st, b, unit); return true })
							}
						}
						return
					}
					c02Check(w, st, b, unit)
				}
			})(w, data)
		},
		Post: postDistinct(100),
	})
}

type c02State struct {
	rd, rd2, rdr rec.Dest
	ps           ref.Parser
	enc          encode.Encoder
	ren          [2]render.Renderer
	ras          [2]rec.Raster
	copy         []byte
	full         []rec.Call
}

var c02Rects = [2]image.Rectangle{image.Rect(0, 0, 64, 64), image.Rect(7, 13, 39, 61)}

func newC02State() *c02State {
	st := &c02State{}
	st.ps.NoPal = false
	for i := range st.ren {
		st.ren[i].SetRasterizer(&st.ras[i], c02Rects[i])
	}
	return st
}

func guard(f func()) (pnc any, stack string) {
	defer func() {
		if r := recover(); r != nil {
			pnc = r
			stack = string(debug.Stack())
		}
	}()
	f()
	return
}

func c02Check(w *mc.W, st *c02State, b []byte, unit string) {
	if len(b) > 1<<22 {
		// a very long input: the work is linear in its length, in time, memory and stack depth
		// (the calls are counted, not stored; a stack overflow kills the process and is
		// attributed by the driver)
		w.Eval()
		cd := rec.Dest{CountOnly: true, NoPal: true}
		err, pnc, stack := safeDecode(&cd, b)
		if pnc != nil {
			w.Fail("panic:decode/recorder:"+panicKey(stack), fmt.Sprintf("Decode of a %d-byte input panicked: %v", len(b), pnc), mkBytesCase(b[:64], unit))
		} else if err != nil || cd.N != int64(len(b))-5+1 {
			w.Fail("long-input", fmt.Sprintf("a %d-byte run of selector opcodes: err=%v, %d calls delivered", len(b), err, cd.N), mkBytesCase(b[:64], unit))
		}
		return
	}
	w.Eval()
	st.copy = append(st.copy[:0], b...)
	fail := func(key, what string) {
		w.Fail(key, fmt.Sprintf("input %s: %s", hexShort(st.copy), what), mkBytesCase(st.copy, unit))
	}

	// (a) recorder
	st.rd.ResetLog()
	err, pnc, stack := safeDecode(&st.rd, b)
	if pnc != nil {
		fail("panic:decode/recorder:"+panicKey(stack), fmt.Sprintf("Decode panicked: %v", pnc))
		return
	}
	if !bytes.Equal(b, st.copy) {
		fail("input-modified:decode", "Decode modified its input")
		copy(b, st.copy)
	}
	if err != nil {
		if _, ok := err.(decode.DecodeError); !ok {
			fail("error-type", fmt.Sprintf("Decode returned %T %v", err, err))
		}
	}
	p := st.ps.Parse(b)
	setHist(p.MetaOK, p.HasVB, p.HasPal, p.Reason)
	calls := st.rd.Calls
	if !p.MetaOK && !p.MIDOrder && len(calls) > 0 {
		fail("delivered-before-metadata-valid", fmt.Sprintf("metadata invalid (%s) but %d calls delivered, first %s", p.Reason, len(calls), calls[0]))
	}
	if len(calls) > 0 {
		if calls[0].M != rec.MReset {
			fail("first-call-not-reset", "first call is "+calls[0].String())
		}
		for i := 1; i < len(calls); i++ {
			if calls[i].M == rec.MReset {
				fail("reset-twice", fmt.Sprintf("Reset delivered again as call %d", i))
				break
			}
		}
		if p.MetaOK && len(calls)-1 > len(b)-p.MetaLen {
			fail("more-calls-than-bytes", fmt.Sprintf("%d calls after Reset from %d instruction bytes", len(calls)-1, len(b)-p.MetaLen))
		}
		if len(calls)-1 > len(b) {
			fail("more-calls-than-bytes", fmt.Sprintf("%d calls from %d bytes", len(calls)-1, len(b)))
		}
	}

	// prefix monotonicity
	if len(b) <= 48 {
		st.full = append(st.full[:0], calls...)
		for n := len(b) - 1; n >= 0; n-- {
			st.rd2.ResetLog()
			_, pnc, stack := safeDecode(&st.rd2, b[:n])
			if pnc != nil {
				fail("panic:decode/recorder:"+panicKey(stack), fmt.Sprintf("Decode panicked on prefix of length %d: %v", n, pnc))
				break
			}
			pc := st.rd2.Calls
			if len(pc) > len(st.full) || firstDiff(pc, st.full[:len(pc)]) >= 0 {
				fail("prefix-not-monotone", fmt.Sprintf("calls for the prefix of length %d are not a prefix of the calls for the whole input: %s vs %s", n, rec.CallsString(pc), rec.CallsString(st.full)))
				break
			}
		}
		w.Count("prefix_checks", int64(len(b)))
	}

	// (a') no destination at all (validation only): the decoder documents a nil destination; it must
	// neither panic nor judge the input differently
	if pnc, stack := guard(func() {
		e0 := decode.Decode(nil, b)
		if (e0 == nil) != (err == nil) {
			fail("sink-dependent-result", fmt.Sprintf("Decode with a nil destination err=%v, into recorder err=%v", e0, err))
		}
	}); pnc != nil {
		fail("panic:decode/nil:"+panicKey(stack), fmt.Sprintf("Decode with a nil destination panicked: %v", pnc))
	}

	// (b) real Encoder as destination
	if pnc, stack := guard(func() {
		e2 := decode.Decode(&st.enc, b)
		if (e2 == nil) != (err == nil) {
			fail("sink-dependent-result", fmt.Sprintf("Decode into Encoder err=%v, into recorder err=%v", e2, err))
		}
		st.enc.Bytes()
	}); pnc != nil {
		fail("panic:decode/encoder:"+panicKey(stack), fmt.Sprintf("Decode into an Encoder panicked: %v", pnc))
		st.enc = encode.Encoder{}
	}

	// (c) real Renderer over a recording rasteriser, behind a recorder
	for i := range st.ren {
		st.ras[i].ResetLog()
		st.rdr.ResetLog()
		st.rdr.NoPal = true
		st.rdr.Next = &st.ren[i]
		var e3 error
		if pnc, stack := guard(func() { e3 = decode.Decode(&st.rdr, b) }); pnc != nil {
			fail("panic:decode/renderer:"+panicKey(stack), fmt.Sprintf("Decode into a Renderer panicked: %v", pnc))
			st.ren[i] = render.Renderer{}
			st.ren[i].SetRasterizer(&st.ras[i], c02Rects[i])
			continue
		}
		if (e3 == nil) != (err == nil) {
			fail("sink-dependent-result", fmt.Sprintf("Decode into Renderer err=%v, into recorder err=%v", e3, err))
		}
		// work bounds
		nDraw, nPathOps := 0, 0
		for j := range st.rdr.Calls {
			m := st.rdr.Calls[j].M
			if m >= rec.MAbsH && m <= rec.MRelA {
				nDraw++
			}
			if m == rec.MStartPath || m == rec.MEndPath || m == rec.MAbsMove || m == rec.MRelMove {
				nPathOps++
			}
		}
		seg, other := 0, 0
		for j := range st.ras[i].Calls {
			switch st.ras[i].Calls[j].K {
			case rec.RLineTo, rec.RQuadTo, rec.RCubeTo:
				seg++
			default:
				other++
			}
		}
		if seg > 4*nDraw {
			fail("too-many-segments", fmt.Sprintf("%d curve segments for %d drawing operations", seg, nDraw))
		}
		if other > 2*nPathOps {
			fail("too-many-raster-calls", fmt.Sprintf("%d Reset/MoveTo/ClosePath/Draw calls for %d path operations", other, nPathOps))
		}
	}
	st.rdr.Next = nil

	// (d) gradients are also painted: a Renderer over the bundled rasteriser onto 8x8 pixels
	if unit == "gradient-stops" {
		img := image.NewRGBA(image.Rect(0, 0, 8, 8))
		var z render.Renderer
		z.SetRasterizer(vec.NewRasterizer(img), img.Bounds())
		if pnc, stack := guard(func() { decode.Decode(&z, b) }); pnc != nil {
			fail("panic:decode/pixels:"+panicKey(stack), fmt.Sprintf("Decode into a Renderer over raster/vec panicked: %v", pnc))
		}
	}

	// DecodeViewBox, Disassemble
	if pnc, stack := guard(func() {
		_, e := decode.DecodeViewBox(b)
		if e != nil {
			if _, ok := e.(decode.DecodeError); !ok {
				fail("error-type", fmt.Sprintf("DecodeViewBox returned %T", e))
			}
		}
	}); pnc != nil {
		fail("panic:decodeviewbox:"+panicKey(stack), fmt.Sprintf("DecodeViewBox panicked: %v", pnc))
	}
	if pnc, stack := guard(func() {
		_, e := decode.Disassemble(b)
		if e != nil {
			if _, ok := e.(decode.DecodeError); !ok {
				fail("error-type", fmt.Sprintf("Disassemble returned %T", e))
			}
		}
		if (e == nil) != (err == nil) {
			fail("sink-dependent-result", fmt.Sprintf("Disassemble err=%v, Decode err=%v", e, err))
		}
	}); pnc != nil {
		fail("panic:disassemble:"+panicKey(stack), fmt.Sprintf("Disassemble panicked: %v", pnc))
	}
	if !bytes.Equal(b, st.copy) {
		fail("input-modified", "input modified by Decode/DecodeViewBox/Disassemble")
		copy(b, st.copy)
	}

	h := mc.NewHasher()
	if err != nil {
		h.Str(err.Error())
	}
	h.U32(uint32(len(calls)))
	rec.HashCalls(&h, calls, false)
	w.Outcome(h.Sum(), err != nil && len(calls) > 0)
	if err != nil && len(calls) > 2 && len(b) < 40 && w.WantSample() {
		w.Sample(map[string]any{"unit": unit, "hex": hexShort(b), "error": err.Error(), "calls_before_error": rec.CallsString(calls)})
	}
}
