package props

import (
	"encoding/json"
	"fmt"
	"image/color"
	"math"

	"github.com/reactivego/ivg"
	"github.com/reactivego/ivg/decode"
	"github.com/reactivego/ivg/encode"
	"verif/gen"
	"verif/mc"
	"verif/rec"
	"verif/ref"
)

// C08 — number encodings: lossless where possible, bounded error, minimal.

const c08Batch = 4096

var c08Quick [][]uint32 // batches of float32 bit patterns

func c08QuickBatches() [][]uint32 {
	if c08Quick != nil {
		return c08Quick
	}
	seen := map[uint32]bool{}
	var vals []uint32
	add := func(u uint32) {
		if !seen[u] {
			seen[u] = true
			vals = append(vals, u)
		}
	}
	add3 := func(f float32) {
		u := math.Float32bits(f)
		add(u)
		add(u + 1)
		add(u - 1)
	}
	mant := []uint32{0, 1, 2, 3, 4, 5, 6, 7, 0x3ffffe, 0x3fffff, 0x400000, 0x400001, 0x400002,
		0x7ffff8, 0x7ffff9, 0x7ffffa, 0x7ffffb, 0x7ffffc, 0x7ffffd, 0x7ffffe, 0x7fffff}
	for s := uint32(0); s < 2; s++ {
		for e := uint32(0); e < 256; e++ {
			for _, m := range mant {
				add(s<<31 | e<<23 | m)
			}
		}
	}
	for _, f := range []float32{128 + 1.0/256, 128 + 1.0/200, 128 + 1.0/129, -128 - 1.0/256, -128 - 1.0/200, -128 - 1.0/129, 64 + 1.0/256, -64 - 1.0/256, 48.01, -10.005, -0.001, 1.0083} {
		add3(f) // just outside the low-resolution range resp. just beside a whole number
	}
	for k := -8192 - 2; k <= 8192+2; k++ { // multiples of 1/64 in [-128,128] and neighbours
		add3(float32(k) / 64)
	}
	for k := -16384 - 2; k <= 16384+2; k++ { // quantiser half steps
		add3(float32(k) / 128)
	}
	for u := 0; u <= 15121; u++ {
		add3(float32(u) / 15120)
		add3(float32(float64(u) / 15120))
	}
	for k := 0; k <= 129; k++ {
		add3(float32(k) / 120)
	}
	for i := 0; i <= 16386; i++ {
		add3(float32(i))
		add3(-float32(i))
	}
	for e := 0; e < 64; e++ {
		add3(float32(math.Ldexp(1, e)))
		add3(float32(math.Ldexp(1, e)) + 0.5)
	}
	for i := 0; i < len(vals); i += c08Batch {
		j := i + c08Batch
		if j > len(vals) {
			j = len(vals)
		}
		c08Quick = append(c08Quick, vals[i:j])
	}
	return c08Quick
}

const c08ThoroughUnits = 4096 // 2^32 / 2^20

// Families of the quick tier that are generated arithmetically (no table):
// (A) every sign x exponent x top 9 mantissa bits x low 3 mantissa bits (2.1 M patterns: rounding of the
// 4-byte form at every magnitude and leading mantissa), 512 units of one batch;
// (B) for the 34 exponents 2^-8 .. 2^25 (where the short real and coordinate forms live and end) and both
// signs, every pattern whose low 7 mantissa bits are zero (4.5 M patterns: every multiple of 1/512 up to
// 128, every half integer up to 2^15), 68 units of 16 batches.
const c08FamA = 512
const c08FamB = 68
const c08FamUnits = c08FamA + c08FamB

func (st *c08State) family(i int) {
	buf := make([]uint32, 0, c08Batch)
	if i < c08FamA {
		s, e := uint32(i>>8), uint32(i&255)
		for hi := uint32(0); hi < 512; hi++ {
			for lo := uint32(0); lo < 8; lo++ {
				buf = append(buf, s<<31|e<<23|hi<<14|lo)
			}
		}
		st.batch(buf)
		return
	}
	i -= c08FamA
	s, e := uint32(i&1), uint32(119+i>>1)
	for m := uint32(0); m < 1<<16; m++ {
		buf = append(buf, s<<31|e<<23|m<<7)
		if len(buf) == c08Batch {
			if st.w.Expired() {
				return
			}
			st.batch(buf)
			buf = buf[:0]
		}
	}
}

func init() {
	mc.Register(&mc.Check{
		ID:    "C08",
		Level: "exploration",
		Rule: "engine P: float32 bit patterns (quick: class-complete set = every sign x exponent x 21 boundary mantissas, every multiple of 1/64 and 1/128 in [-128,128], every u/15120, k/120, integer <=16386, powers of two, each with +-1 ulp neighbours, plus two arithmetic families: every sign x exponent x top 9 x low 3 mantissa bits, and every pattern with the low 7 mantissa bits zero for the exponents 2^-8..2^25; thorough: all 2^32) " +
			"through every public route that writes a number (SetLOD real, path coordinates at high and low resolution, arc rotation angle, SetNReg shortest-of-three, viewBox) and directly through the five unexported encoders (generated overlay); " +
			"each encoded form is measured and decoded by the reference codec and by the real decoder, then re-encoded (idempotence). Naturals: boundary classes (thorough: all 2^30). Decoder side: all 128 one-byte, 16384 two-byte and 32768 strided four-byte patterns of each kind as instruction operands, as arc flags and as the four numbers of a viewBox chunk, every truncation of both. Metadata naturals: every palette length 1..64 x colour width 1..4 x {default, custom viewBox} (chunk lengths 3..258 cross the 1-byte/2-byte natural boundary). " +
			"distinct = hash of (route, form length, exactness class); non-trivial = value not exactly representable in a short form (4-byte form with rounding)",
		Assumptions: []string{"linux/amd64 float-to-integer conversion semantics", "ulp distances measured on float32 bit patterns"},
		Units: func(tier string) int {
			n := len(c08QuickBatches()) + 4 + c08FamUnits
			if tier == "thorough" {
				n += c08ThoroughUnits + 1024
			}
			return n
		},
		Run:    c08Run,
		Replay: c08Replay,
		Post:   postDistinct(12),
	})
}

type c08Case struct {
	Route string   `json:"route"`
	Bits  []uint32 `json:"value_bits"`
	Nat   uint32   `json:"natural,omitempty"`
	Hex   string   `json:"hex,omitempty"`
	N     int      `json:"entries,omitempty"`
	W     int      `json:"colour_width,omitempty"`
	VB    int      `json:"viewbox,omitempty"`
}

func c08Run(w *mc.W, u int) {
	st := newC08State(w)
	nq := len(c08QuickBatches())
	switch {
	case u < nq:
		st.batch(c08QuickBatches()[u])
	case u == nq:
		st.naturals(false, 0)
	case u == nq+1:
		st.decoderForms()
	case u == nq+2:
		st.nregTies()
	case u == nq+3:
		st.chunkLengths()
	case u < nq+4+c08FamUnits:
		st.lean = true
		st.family(u - nq - 4)
	case u < nq+4+c08FamUnits+c08ThoroughUnits:
		base := uint32(u-nq-4-c08FamUnits) << 20
		st.lean = true
		buf := make([]uint32, c08Batch)
		for off := uint32(0); off < 1<<20; off += c08Batch {
			if w.Expired() {
				return
			}
			for i := range buf {
				buf[i] = base + off + uint32(i)
			}
			st.batch(buf)
		}
	default:
		st.naturals(true, u-(nq+4+c08FamUnits+c08ThoroughUnits))
	}
}

func c08Replay(w *mc.W, data json.RawMessage) error {
	var cs c08Case
	if err := unmarshalCase(data, &cs); err != nil {
		return err
	}
	st := newC08State(w)
	switch cs.Route {
	case "natural":
		st.natural(cs.Nat)
	case "decoder":
		st.decoderOne(gen.Magic, mkBytesCase(nil, "").bytes(), cs.Hex)
	case "chunk-length":
		st.chunkLength(cs.N, cs.W, cs.VB)
	default:
		st.batch(cs.Bits)
	}
	return nil
}

type c08State struct {
	lean bool // fewer arc variants per batch (the 2^32 sweep)
	ctx  []uint32
	w    *mc.W
	ps   ref.Parser
	rd   rec.Dest
	nums []c08Num
	buf  []byte
}

type c08Num struct {
	kind byte
	n    int
	f    float32
	nat  uint32
}

func newC08State(w *mc.W) *c08State {
	st := &c08State{w: w}
	st.ps.NoPal = true
	st.rd.NoPal = true
	st.ps.OnNum = func(kind byte, n int, f float32, nat uint32) { st.nums = append(st.nums, c08Num{kind, n, f, nat}) }
	return st
}

// judge checks one (original, kind, form length, decoded) observation.
// kind: 'r' real, 'c' coordinate, 'z' zero-to-one, 'a' angle (encoded as zero-to-one), 'q' low-resolution coordinate.
func (st *c08State) judge(route string, kind byte, orig float32, n int, dec float32) {
	w := st.w
	w.EvalN(1)
	fail := func(key, what string) {
		w.Fail(route+":"+key, fmt.Sprintf("route %s: value %s encoded in %d bytes decodes to %s: %s", route, rec.F(orig), n, rec.F(dec), what),
			c08Case{Route: route, Bits: []uint32{f32b(orig)}})
	}
	exact := false
	if kind == 'q' {
		// low-resolution quantisation, then a coordinate
		if orig >= -128 && orig < 128 {
			if !ref.Nearest64(orig, dec) {
				fail("quantise-not-nearest", "not the nearest multiple of 1/64")
			}
			if want := ref.CoordShortLen(dec); n != want {
				fail("quantised-length", fmt.Sprintf("form length %d, shortest exact form is %d", n, want))
			}
			h := mc.NewHasher()
			h.Str(route)
			h.Byte(byte(n))
			h.Bool(orig == dec)
			w.Outcome(h.Sum(), orig != dec)
			return
		}
		kind = 'c'
	}
	origNaN := orig != orig
	switch kind {
	case 'r', 'c':
		want := ref.RealShortLen(orig)
		if kind == 'c' {
			want = ref.CoordShortLen(orig)
		}
		if n != want {
			fail("not-shortest", fmt.Sprintf("shortest exact form is %d bytes", want))
		}
		if n < 4 {
			exact = true
			if !(dec == orig) {
				fail("short-form-inexact", "short form does not decode to an equal value")
			}
		}
	case 'z':
		if n < 4 {
			// representable in the chosen form => equal; else within 4 ulp
			if ref.ZeroToOneShortLen(orig) <= n && repIn(orig, n) {
				exact = true
				if !(dec == orig) {
					fail("short-form-inexact", "value is representable in the chosen form but decodes to a different value")
				}
			} else if ref.UlpDiff(orig, dec) > 4 {
				fail("short-form-error", fmt.Sprintf("off by %d ulp", ref.UlpDiff(orig, dec)))
			}
		}
	case 'a':
		// angle: compared on the circle
		if origNaN || math.IsInf(float64(orig), 0) {
			if isFinite32(dec) {
				fail("angle-nonfinite", "non-finite angle became finite")
			}
		} else {
			g := float64(orig) - math.Floor(float64(orig))
			d := math.Abs(float64(dec) - g)
			if d > 0.5 {
				d = 1 - d
			}
			if !(d <= 1.0/(1<<21)) || !(dec >= 0 && dec <= 1) {
				fail("angle-error", fmt.Sprintf("circle distance %g turns", d))
			}
			exact = d == 0
		}
		h := mc.NewHasher()
		h.Str(route)
		h.Byte(byte(n))
		h.Bool(exact)
		w.Outcome(h.Sum(), !exact)
		return
	}
	if n == 4 {
		ob, db := f32b(orig), f32b(dec)
		switch {
		case origNaN:
			if isFinite32(dec) {
				fail("nan-became-finite", "NaN decoded as a finite number")
			}
		case math.IsInf(float64(orig), 0):
			if dec != orig {
				fail("infinity-lost", "infinity not preserved")
			}
		default:
			if (ob^db)&0x80000000 != 0 {
				fail("sign-lost", "sign not preserved")
			} else if d := ref.UlpDiff(orig, dec); d > 4 {
				fail("error-too-large", fmt.Sprintf("off by %d ulp", d))
			} else if ob&3 == 0 {
				exact = true
				if ob != db {
					fail("representable-4byte-inexact", "value representable in the 4-byte form changed")
				}
			}
			if !isFinite32(dec) {
				fail("finite-became-nonfinite", "finite value decoded as non-finite")
			}
		}
	}
	h := mc.NewHasher()
	h.Str(route)
	h.Byte(byte(n))
	h.Bool(exact)
	h.Bool(origNaN)
	w.Outcome(h.Sum(), n == 4 && !exact)
}

// repIn reports whether f is representable in the n-byte zero-to-one form.
func repIn(f float32, n int) bool {
	if n == 1 {
		k := math.Round(float64(f) * 120)
		return k >= 0 && k < 128 && ref.ZeroToOneShortLen(f) == 1
	}
	k := math.Round(float64(f) * 15120)
	if k < 0 || k >= 16384 {
		return false
	}
	g, _ := ref.ZeroToOne(gen.AppendNum(nil, 2, uint32(k)))
	return g == f
}

// parseOut reads the encoder output with the reference parser and the real
// decoder; both must accept and agree on every delivered value.
func (st *c08State) parseOut(route string, out []byte, err error, vals []uint32) bool {
	w := st.w
	if err != nil {
		w.Fail(route+":bytes-error", fmt.Sprintf("route %s: Bytes() failed: %v", route, err), c08Case{Route: route, Bits: vals})
		return false
	}
	st.nums = st.nums[:0]
	p := st.ps.Parse(out)
	if !p.OK {
		w.Fail(route+":output-malformed", fmt.Sprintf("route %s: encoder output is not well formed (%s)", route, p.Reason), c08Case{Route: route, Bits: vals})
		return false
	}
	st.rd.ResetLog()
	if derr := decode.Decode(&st.rd, out); derr != nil {
		w.Fail(route+":decode-error", fmt.Sprintf("route %s: Decode failed: %v", route, derr), c08Case{Route: route, Bits: vals})
		return false
	}
	w.Trace()
	if i := firstDiff(st.rd.Calls, p.Calls); i >= 0 {
		w.Fail(route+":decoder-differs", fmt.Sprintf("route %s: decoder delivered %s, reference %s", route, callAt(st.rd.Calls, i), callAt(p.Calls, i)), c08Case{Route: route, Bits: vals})
		return false
	}
	return true
}

func (st *c08State) expectNums(route string, n int, vals []uint32) bool {
	if len(st.nums) != n {
		st.w.Fail(route+":number-count", fmt.Sprintf("route %s: output holds %d numbers, expected %d", route, len(st.nums), n), c08Case{Route: route, Bits: vals})
		return false
	}
	return true
}

func (st *c08State) batch(vals []uint32) {
	w := st.w
	n := len(vals)
	if n == 0 {
		return
	}
	st.ctx = vals
	w.SetAltCase(func() any {
		if len(st.ctx) < 2 {
			return nil
		}
		return c08Case{Route: "batch", Bits: append([]uint32(nil), st.ctx...)} // a failure may depend on the position in its run
	})
	if w.WantSample() {
		w.Sample(map[string]any{"batch_of_float32_bits": fmt.Sprintf("%08x %08x %08x ... (%d values, routes lod/hires/lores/angle/nreg/viewbox/direct)", vals[0], vals[n/2], vals[n-1], n)})
	}
	// --- SetLOD (real), plus idempotence round
	{
		var e encode.Encoder
		for _, u := range vals {
			e.SetLOD(b32f(u), b32f(u))
		}
		out, err := e.Bytes()
		if st.parseOut("lod", out, err, vals) && st.expectNums("lod", 2*n, vals) {
			var e2 encode.Encoder
			first := append([]c08Num(nil), st.nums...)
			for i, u := range vals {
				st.judge("lod", 'r', b32f(u), first[2*i].n, first[2*i].f)
				e2.SetLOD(first[2*i].f, first[2*i+1].f)
			}
			out2, err2 := e2.Bytes()
			if st.parseOut("lod-reencode", out2, err2, vals) && st.expectNums("lod-reencode", 2*n, vals) {
				for i := range vals {
					a, b := first[2*i], st.nums[2*i]
					if !(f32b(a.f) == f32b(b.f) || a.f == b.f) || b.n > a.n {
						w.Fail("lod:not-idempotent", fmt.Sprintf("real %s (from %s) re-encodes to %s in %d bytes (was %d)", rec.F(a.f), rec.F(b32f(vals[i])), rec.F(b.f), b.n, a.n), c08Case{Route: "lod", Bits: []uint32{vals[i]}})
					}
				}
			}
		}
	}
	// --- path coordinates, high resolution (+ idempotence) and low resolution
	for _, hi := range []bool{true, false} {
		route := "coord-lores"
		kind := byte('q')
		if hi {
			route, kind = "coord-hires", 'c'
		}
		var e encode.Encoder
		e.HighResolutionCoordinates = hi
		e.StartPath(0, b32f(vals[0]), b32f(vals[0]))
		for _, u := range vals {
			e.AbsLineTo(b32f(u), b32f(u))
		}
		e.ClosePathEndPath()
		out, err := e.Bytes()
		if st.parseOut(route, out, err, vals) && st.expectNums(route, 2+2*n, vals) {
			first := append([]c08Num(nil), st.nums...)
			// the start point of the path is a coordinate like any other
			st.judge(route+"/start", kind, b32f(vals[0]), first[0].n, first[0].f)
			st.judge(route+"/start", kind, b32f(vals[0]), first[1].n, first[1].f)
			var e2 encode.Encoder
			e2.HighResolutionCoordinates = hi
			e2.StartPath(0, first[0].f, first[1].f)
			for i, u := range vals {
				st.judge(route, kind, b32f(u), first[2+2*i].n, first[2+2*i].f)
				if f32b(first[2+2*i].f) != f32b(first[3+2*i].f) || first[2+2*i].n != first[3+2*i].n {
					w.Fail(route+":position-dependent", "x and y operand of the same value encoded differently", c08Case{Route: route, Bits: []uint32{u}})
				}
				e2.RelLineTo(first[2+2*i].f, first[3+2*i].f)
			}
			e2.ClosePathEndPath()
			out2, err2 := e2.Bytes()
			if st.parseOut(route+"-reencode", out2, err2, vals) && st.expectNums(route+"-reencode", 2+2*n, vals) {
				for i := range vals {
					a, b := first[2+2*i], st.nums[2+2*i]
					if !(f32b(a.f) == f32b(b.f) || a.f == b.f) || b.n > a.n {
						w.Fail(route+":not-idempotent", fmt.Sprintf("coordinate %s (from %s) re-encodes to %s in %d bytes (was %d)", rec.F(a.f), rec.F(b32f(vals[i])), rec.F(b.f), b.n, a.n), c08Case{Route: route, Bits: []uint32{vals[i]}})
					}
				}
			}
		}
	}
	// --- arc rotation (angle) and arc flags (natural)
	for variant := 0; variant < 4; variant++ { // {high, low} resolution x {absolute, relative}: the angle is no coordinate in any of them
		if st.lean && (variant == 1 || variant == 2) {
			continue // the complete sweep of the thorough tier: high/absolute and low/relative
		}
		var e encode.Encoder
		e.HighResolutionCoordinates = variant&1 == 0
		e.StartPath(0, 0, 0)
		for i, u := range vals {
			// the radii take turns being zero (a zero-radius arc is a line when drawn, but its
			// rotation and flags are operands like any other) or below the low-resolution quantum
			r := [4][2]float32{{1, 2}, {0, 2}, {1, 0}, {1.0 / 256, 2}}[i>>2&3]
			if variant&2 == 0 {
				e.AbsArcTo(r[0], r[1], b32f(u), i&1 != 0, i&2 != 0, 3, 4)
			} else {
				e.RelArcTo(r[0], r[1], b32f(u), i&1 != 0, i&2 != 0, 3, 4)
			}
		}
		e.ClosePathEndPath()
		out, err := e.Bytes()
		if st.parseOut("angle", out, err, vals) && st.expectNums("angle", 2+6*n, vals) {
			for i, u := range vals {
				a := st.nums[2+6*i+2]
				fl := st.nums[2+6*i+3]
				if a.kind != 'z' || fl.kind != 'n' {
					w.Fail("angle:operand-kinds", "arc operand kinds out of order", c08Case{Route: "angle", Bits: []uint32{u}})
					break
				}
				st.judge("angle", 'a', b32f(u), a.n, a.f)
				if fl.nat != uint32(i&3) || fl.n != 1 {
					w.Fail("angle:flags", fmt.Sprintf("arc flags %d written as natural %d in %d bytes", i&3, fl.nat, fl.n), c08Case{Route: "angle", Bits: []uint32{u}})
				}
			}
		}
	}
	// --- arc radii: coordinates like any other (sign included), at either resolution
	for variant := 0; variant < 2; variant++ {
		var e encode.Encoder
		hi := variant == 0
		e.HighResolutionCoordinates = hi
		e.StartPath(0, 0, 0)
		for _, u := range vals {
			e.RelArcTo(b32f(u), b32f(u), 0.25, false, true, 3, 4)
		}
		e.ClosePathEndPath()
		out, err := e.Bytes()
		route := "radius-lo"
		if hi {
			route = "radius-hi"
		}
		if st.parseOut(route, out, err, vals) && st.expectNums(route, 2+6*n, vals) {
			for i, u := range vals {
				for k := 0; k < 2; k++ {
					x := st.nums[2+6*i+k]
					if x.kind != 'c' {
						w.Fail(route+":operand-kinds", "arc operand kinds out of order", c08Case{Route: route, Bits: []uint32{u}})
						break
					}
					kind := byte('c')
					if !hi {
						kind = 'q'
					}
					st.judge(route, kind, b32f(u), x.n, x.f)
				}
				// rotation and flags are written whatever the radii are (zero, negative, non-finite)
				if a, fl := st.nums[2+6*i+2], st.nums[2+6*i+3]; a.kind != 'z' || a.f != 0.25 || fl.kind != 'n' || fl.nat != 2 {
					w.Fail(route+":angle-or-flags", fmt.Sprintf("arc with radii %s, rotation 0.25 and flags 2 written with rotation %s and flags %d", rec.F(b32f(u)), rec.F(a.f), fl.nat), c08Case{Route: route, Bits: []uint32{u}})
				}
			}
		}
	}
	// --- SetNReg: shortest of three
	{
		var e encode.Encoder
		for _, u := range vals {
			e.SetNReg(0, false, b32f(u))
		}
		out, err := e.Bytes()
		if st.parseOut("nreg", out, err, vals) && st.expectNums("nreg", n, vals) {
			for i, u := range vals {
				x := st.nums[i]
				f := b32f(u)
				st.judge("nreg/"+string(x.kind), x.kind, f, x.n, x.f)
				best := ref.RealShortLen(f)
				if c := ref.CoordShortLen(f); c < best {
					best = c
				}
				if x.n > best {
					w.Fail("nreg:not-shortest", fmt.Sprintf("NREG value %s written in %d bytes (kind %c) although an exact %d-byte real/coordinate form exists", rec.F(f), x.n, x.kind, best), c08Case{Route: "nreg", Bits: []uint32{u}})
				}
			}
		}
	}
	// --- viewBox (finite values only)
	for _, u := range vals {
		f := b32f(u)
		if !isFinite32(f) {
			continue
		}
		var e encode.Encoder
		vb := ivg.ViewBox{MinX: f, MinY: f, MaxX: f, MaxY: f}
		e.Reset(vb, ivg.DefaultPalette)
		out, err := e.Bytes()
		if vb == ivg.DefaultViewBox {
			continue
		}
		if err != nil {
			w.Fail("viewbox:bytes-error", err.Error(), c08Case{Route: "viewbox", Bits: []uint32{u}})
			continue
		}
		st.nums = st.nums[:0]
		p := st.ps.Parse(out)
		if !p.OK || len(st.nums) != 4 {
			w.Fail("viewbox:output-malformed", fmt.Sprintf("viewBox %s: encoder output %x not well formed (%s)", rec.F(f), out, p.Reason), c08Case{Route: "viewbox", Bits: []uint32{u}})
			continue
		}
		got, derr := decode.DecodeViewBox(out)
		if derr != nil || f32b(got.MinX) != f32b(p.VB.MinX) || f32b(got.MaxY) != f32b(p.VB.MaxY) {
			w.Fail("viewbox:decoder-differs", fmt.Sprintf("viewBox %s: DecodeViewBox=%v err=%v reference %v", rec.F(f), got, derr, p.VB), c08Case{Route: "viewbox", Bits: []uint32{u}})
		}
		st.judge("viewbox", 'c', f, st.nums[0].n, st.nums[0].f)
	}
	// --- the unexported encoders, directly
	if privEnc != nil {
		for _, u := range vals {
			f := b32f(u)
			for _, k := range []byte{'r', 'c', 'z', 'a'} {
				var out []byte
				var dec float32
				var dn int
				switch k {
				case 'r':
					out = privEnc.Real(st.buf[:0], f)
					dec, dn = ref.Real(out)
				case 'c':
					out = privEnc.Coord(st.buf[:0], f)
					dec, dn = ref.Coord(out)
				case 'z':
					out = privEnc.ZeroToOne(st.buf[:0], f)
					dec, dn = ref.ZeroToOne(out)
				case 'a':
					out = privEnc.Angle(st.buf[:0], f)
					dec, dn = ref.ZeroToOne(out)
				}
				st.buf = out[:0]
				if dn == 0 || dn != len(out) {
					w.Fail("direct:form-length", fmt.Sprintf("encoder %c wrote %x for %s: not a single complete number", k, out, rec.F(f)), c08Case{Route: "direct", Bits: []uint32{u}})
					continue
				}
				st.judge("direct/"+string(k), k, f, dn, dec)
				if privDec != nil {
					var g float32
					var gn int
					switch k {
					case 'r':
						g, gn = privDec.Real(out)
					case 'c':
						g, gn = privDec.Coord(out)
					default:
						g, gn = privDec.ZeroToOne(out)
					}
					if gn != dn || f32b(g) != f32b(dec) {
						w.Fail("direct:decoder-differs", fmt.Sprintf("decoder %c reads %x as %s (%d bytes), reference %s (%d)", k, out, rec.F(g), gn, rec.F(dec), dn), c08Case{Route: "direct", Bits: []uint32{u}})
					}
				}
			}
		}
	} else {
		w.Note("unexported encoders not reachable (overlay build failed): public routes only")
	}
}

func (st *c08State) natural(u uint32) {
	w := st.w
	w.EvalN(1)
	if privEnc == nil {
		return
	}
	out := privEnc.Natural(st.buf[:0], u)
	st.buf = out[:0]
	d, n := ref.Natural(out)
	if n == 0 || n != len(out) || d != u || n != ref.NaturalLen(u) {
		w.Fail("natural:roundtrip", fmt.Sprintf("natural %d written as %x: decodes to %d in %d bytes (shortest %d)", u, out, d, n, ref.NaturalLen(u)), c08Case{Route: "natural", Nat: u})
	}
	if privDec != nil {
		g, gn := privDec.Natural(out)
		if g != d || gn != n {
			w.Fail("natural:decoder-differs", fmt.Sprintf("decoder reads %x as %d (%d bytes)", out, g, gn), c08Case{Route: "natural", Nat: u})
		}
	}
	h := mc.NewHasher()
	h.Str("natural")
	h.Byte(byte(n))
	w.Outcome(h.Sum(), n > 1)
}

func (st *c08State) naturals(all bool, part int) {
	if privEnc == nil {
		st.w.Note("unexported natural encoder not reachable: naturals checked through arc flags and chunk lengths only")
	}
	if !all {
		for u := uint32(0); u <= 300; u++ {
			st.natural(u)
		}
		for e := 0; e < 30; e++ {
			for d := -2; d <= 2; d++ {
				v := int64(1)<<e + int64(d)
				if v >= 0 && v < 1<<30 {
					st.natural(uint32(v))
				}
			}
		}
		st.natural(1<<30 - 1)
		st.natural(1<<30 - 2)
		// naturals the public API produces: chunk count/lengths (viewBox + palette chunks)
		return
	}
	// thorough: all 2^30 in 1024 parts
	lo := uint32(part) << 20
	for u := lo; u < lo+1<<20; u++ {
		if u&0xfff == 0 && st.w.Expired() {
			return
		}
		st.natural(u)
	}
}

// decoderForms drives every 1-byte, 2-byte and strided 4-byte pattern of each
// kind through crafted single-instruction streams and every truncation.
func (st *c08State) decoderForms() {
	pre := append(append([]byte{}, gen.Magic...), 0x00)
	var forms [][]byte
	for v := uint32(0); v < 128; v++ {
		forms = append(forms, gen.AppendNum(nil, 1, v))
	}
	for v := uint32(0); v < 16384; v++ {
		forms = append(forms, gen.AppendNum(nil, 2, v))
	}
	for s := uint32(0); s < 2; s++ {
		for e := uint32(0); e < 256; e++ {
			for m := uint32(0); m < 64; m++ {
				mant := (m * 0x20821) & 0x7fffff // spreads over high and low mantissa bits
				if m < 8 {
					mant = m << 2
				}
				if m >= 56 {
					mant = 0x7fffff - (m-56)<<2
				}
				forms = append(forms, gen.AppendF32(nil, s<<31|e<<23|mant))
			}
		}
	}
	for _, f := range forms {
		st.decoderOne(pre, f, "")
	}
}

func (st *c08State) decoderOne(pre, form []byte, hexIn string) {
	w := st.w
	if hexIn != "" {
		form = bytesCase{Hex: hexIn}.bytes()
		pre = append(append([]byte{}, gen.Magic...), 0x00)
	}
	type tmpl struct {
		op   byte
		kind byte
		cnt  int
	}
	for _, t := range []tmpl{{0xc7, 'r', 2}, {0xb0, 'c', 1}, {0xb8, 'z', 1}, {0xa8, 'r', 1}} {
		w.EvalN(1)
		b := append(append([]byte{}, pre...), t.op)
		for i := 0; i < t.cnt; i++ {
			b = append(b, form...)
		}
		st.rd.ResetLog()
		err := decode.Decode(&st.rd, b)
		var want float32
		switch t.kind {
		case 'r':
			want, _ = ref.Real(form)
		case 'c':
			want, _ = ref.Coord(form)
		default:
			want, _ = ref.ZeroToOne(form)
		}
		if err != nil || len(st.rd.Calls) != 2 {
			w.Fail("decoder:reject", fmt.Sprintf("stream %x rejected: %v", b, err), c08Case{Route: "decoder", Hex: fmt.Sprintf("%x", form)})
			continue
		}
		got := st.rd.Calls[1].A[0]
		if f32b(got) != f32b(want) || (t.cnt == 2 && f32b(st.rd.Calls[1].A[1]) != f32b(want)) {
			w.Fail("decoder:value", fmt.Sprintf("%c form %x decodes to %s, specification says %s", t.kind, form, rec.F(got), rec.F(want)), c08Case{Route: "decoder", Hex: fmt.Sprintf("%x", form)})
		}
		// every truncation is an error
		for n := len(pre) + 1; n < len(b); n++ {
			if t.cnt == 2 && n == len(pre)+1+len(form) {
				// still truncated: second number missing
			}
			st.rd.ResetLog()
			err := decode.Decode(&st.rd, b[:n])
			if _, ok := err.(decode.DecodeError); !ok {
				w.Fail("decoder:truncation-accepted", fmt.Sprintf("stream %x cut to %d bytes: err=%v", b, n, err), c08Case{Route: "decoder", Hex: fmt.Sprintf("%x", form)})
			}
		}
		h := mc.NewHasher()
		h.Str("decoder")
		h.Byte(t.kind)
		h.Byte(byte(len(form)))
		w.Outcome(h.Sum(), len(form) == 4)
	}
	// the same form as the flags of an arc: read as a natural (bit 0 large-arc, bit 1 sweep)
	{
		w.EvalN(1)
		b := append(append([]byte{}, pre...), 0xc0, 0x80, 0x80, 0xc0, 0x84, 0x86, 0x0a)
		b = append(b, form...)
		b = append(b, 0x88, 0x8a, 0xe1)
		u, _ := ref.Natural(form)
		st.rd.ResetLog()
		err, pnc, _ := safeDecode(&st.rd, b)
		cs := c08Case{Route: "decoder", Hex: fmt.Sprintf("%x", form)}
		if err != nil || pnc != nil || len(st.rd.Calls) != 4 || st.rd.Calls[2].M != rec.MAbsA {
			w.Fail("decoder:arc-flags", fmt.Sprintf("stream %x (arc flags natural %x): err=%v panic=%v calls=%d", b, form, err, pnc, len(st.rd.Calls)), cs)
		} else if c := &st.rd.Calls[2]; c.LA != (u&1 != 0) || c.SW != (u&2 != 0) {
			w.Fail("decoder:arc-flags", fmt.Sprintf("arc flags natural %x = %d: delivered large-arc %v sweep %v", form, u, c.LA, c.SW), cs)
		}
		for n := len(pre) + 8; n < len(pre)+7+len(form); n++ {
			if err, pnc, _ := safeDecode(&st.rd, b[:n]); pnc != nil {
				w.Fail("decoder:arc-flags", fmt.Sprintf("stream %x cut to %d bytes: panic %v", b, n, pnc), cs)
			} else if _, ok := err.(decode.DecodeError); !ok {
				w.Fail("decoder:truncation-accepted", fmt.Sprintf("stream %x cut to %d bytes (inside the arc flags): err=%v", b, n, err), cs)
			}
		}
	}
	// the same form as the four numbers of a viewBox chunk: read as coordinates, and every
	// cut of the metadata is a decoding error (never a read past the end)
	{
		w.EvalN(1)
		b := append(append([]byte{}, gen.Magic...), 0x02, byte(2*(1+4*len(form))), 0x00)
		for i := 0; i < 4; i++ {
			b = append(b, form...)
		}
		cs := c08Case{Route: "decoder", Hex: fmt.Sprintf("%x", form)}
		p := st.ps.Parse(b)
		st.rd.ResetLog()
		err, pnc, _ := safeDecode(&st.rd, b)
		switch {
		case pnc != nil:
			w.Fail("decoder:viewbox-panic", fmt.Sprintf("stream %x: panic %v", b, pnc), cs)
		case (err == nil) != p.OK:
			w.Fail("decoder:viewbox-accept", fmt.Sprintf("stream %x: err=%v, specification says ok=%v (%s)", b, err, p.OK, p.Reason), cs)
		case err == nil && (len(st.rd.Calls) != 1 || !sameVB(st.rd.Calls[0].VB, p.VB)):
			w.Fail("decoder:viewbox-value", fmt.Sprintf("stream %x: viewBox %v, specification says %v", b, st.rd.Calls, p.VB), cs)
		}
		if vb, verr := decode.DecodeViewBox(b); (verr == nil) != p.OK || (verr == nil && !sameVB(vb, p.VB)) {
			w.Fail("decoder:viewbox-value", fmt.Sprintf("DecodeViewBox(%x) = %v, %v; specification says ok=%v %v", b, vb, verr, p.OK, p.VB), cs)
		}
		for n := 4; n < len(b); n++ {
			st.rd.ResetLog()
			err, pnc, _ := safeDecode(&st.rd, b[:n])
			if _, ok := err.(decode.DecodeError); !ok || pnc != nil {
				w.Fail("decoder:metadata-truncation", fmt.Sprintf("stream %x cut to %d bytes: err=%v panic=%v", b, n, err, pnc), cs)
			}
			func() {
				defer func() {
					if r := recover(); r != nil {
						w.Fail("decoder:metadata-truncation", fmt.Sprintf("DecodeViewBox of stream %x cut to %d bytes: panic %v", b, n, r), cs)
					}
				}()
				if _, verr := decode.DecodeViewBox(b[:n]); verr == nil {
					w.Fail("decoder:metadata-truncation", fmt.Sprintf("DecodeViewBox of stream %x cut to %d bytes succeeds", b, n), cs)
				}
			}()
		}
		h := mc.NewHasher()
		h.Str("decoder-viewbox")
		h.Byte(byte(len(form)))
		h.Bool(p.OK)
		w.Outcome(h.Sum(), len(form) == 4)
	}
	if privDec != nil {
		if u, n := privDec.Natural(form); n != len(form) {
			w.Fail("decoder:natural", fmt.Sprintf("natural %x read as %d in %d bytes", form, u, n), c08Case{Route: "decoder", Hex: fmt.Sprintf("%x", form)})
		} else if ru, _ := ref.Natural(form); ru != u {
			w.Fail("decoder:natural", fmt.Sprintf("natural %x read as %d, specification says %d", form, u, ru), c08Case{Route: "decoder", Hex: fmt.Sprintf("%x", form)})
		}
		for n := 0; n < len(form); n++ {
			if _, k := privDec.Natural(form[:n]); k != 0 {
				w.Fail("decoder:natural-truncated", fmt.Sprintf("natural %x cut to %d bytes accepted", form, n), c08Case{Route: "decoder", Hex: fmt.Sprintf("%x", form)})
			}
		}
	}
}

func sameVB(a, b ivg.ViewBox) bool {
	return f32b(a.MinX) == f32b(b.MinX) && f32b(a.MinY) == f32b(b.MinY) && f32b(a.MaxX) == f32b(b.MaxX) && f32b(a.MaxY) == f32b(b.MaxY)
}

// chunkLengths: the naturals the metadata writer produces (chunk count, chunk lengths,
// metadata identifiers): every palette length 1..64 x colour width 1..4 bytes x {default,
// custom} viewBox; the palette chunk is 3..258 bytes long, so its length crosses the
// 1-byte / 2-byte boundary of the natural encoding.
func (st *c08State) chunkLengths() {
	for vb := 0; vb < 2; vb++ {
		for wd := 1; wd <= 4; wd++ {
			for n := 1; n <= 64; n++ {
				st.chunkLength(n, wd, vb)
			}
		}
	}
}

var c08PalCols = [5]color.RGBA{1: {0xff, 0xff, 0xff, 0xff}, 2: {0x33, 0x22, 0x11, 0x33}, 3: {0x30, 0x66, 0x07, 0xff}, 4: {0x30, 0x20, 0x07, 0x80}}

func (st *c08State) chunkLength(n, wd, vbi int) {
	w := st.w
	w.EvalN(1)
	cs := c08Case{Route: "chunk-length", N: n, W: wd, VB: vbi}
	vb := ivg.DefaultViewBox
	if vbi == 1 {
		vb = ivg.ViewBox{MinX: -300.5, MinY: -1e5, MaxX: 1000.5, MaxY: 700.25} // exact in the 4-byte form
	}
	pal := ivg.DefaultPalette
	for i := 0; i < n; i++ {
		pal[i] = c08PalCols[wd]
	}
	var e encode.Encoder
	e.Reset(vb, pal)
	out, err := e.Bytes()
	if err != nil {
		w.Fail("chunk-length:bytes-error", err.Error(), cs)
		return
	}
	// walk the metadata with the reference natural codec
	pos := 4
	cnt, k := ref.Natural(out[pos:])
	wantCnt := uint32(1 + vbi)
	if k == 0 || cnt != wantCnt || k != ref.NaturalLen(cnt) {
		w.Fail("chunk-length:count", fmt.Sprintf("metadata %s: chunk count reads %d in %d bytes, expected %d", hexShort(out), cnt, k, wantCnt), cs)
		return
	}
	pos += k
	for c := uint32(0); c < cnt; c++ {
		l, k := ref.Natural(out[min(pos, len(out)):])
		// (that the declared length matches the content is judged by the reference parser below)
		if k == 0 || k != ref.NaturalLen(l) || (c == cnt-1 && int(l) != 2+n*wd) {
			w.Fail("chunk-length:length", fmt.Sprintf("metadata %s: chunk length at %d reads %d in %d bytes (shortest form %d); the palette chunk is %d bytes", hexShort(out), pos, l, k, ref.NaturalLen(l), 2+n*wd), cs)
			return
		}
		pos += k + int(l)
	}
	if pos != len(out) {
		w.Fail("chunk-length:length", fmt.Sprintf("metadata %s: %d bytes, the chunks account for %d", hexShort(out), len(out), pos), cs)
		return
	}
	var ps ref.Parser
	var rd rec.Dest
	p := ps.Parse(out)
	derr, pnc, _ := safeDecode(&rd, out)
	if !p.OK || derr != nil || pnc != nil || len(rd.Calls) != 1 {
		w.Fail("chunk-length:decode", fmt.Sprintf("metadata %s: reference ok=%v (%s), decoder err=%v panic=%v", hexShort(out), p.OK, p.Reason, derr, pnc), cs)
		return
	}
	w.Trace()
	got := rd.Calls[0]
	if !sameVB(got.VB, vb) || !sameVB(p.VB, vb) || got.Pal == nil || *got.Pal != pal || p.Pal != pal {
		w.Fail("chunk-length:content", fmt.Sprintf("metadata %s decodes to %v, written %v / %d x %v", hexShort(out), got, vb, n, c08PalCols[wd]), cs)
	}
	h := mc.NewHasher()
	h.Str("chunk-length")
	h.Byte(byte(ref.NaturalLen(uint32(2 + n*wd))))
	h.Byte(byte(wd))
	h.Byte(byte(vbi))
	w.Outcome(h.Sum(), 2+n*wd >= 128)
}

// nregTies: values where two of the three NREG forms have the same length.
func (st *c08State) nregTies() {
	var vals []uint32
	for i := 0; i < 128; i++ {
		vals = append(vals, f32b(float32(i)))     // real 1 byte, coordinate 1 byte (i<64)
		vals = append(vals, f32b(float32(i)/120)) // zero-to-one 1 byte
		vals = append(vals, f32b(float32(i)+0.5)) // coordinate 2 bytes
		vals = append(vals, f32b(float32(i*100))) // real 2 bytes
	}
	st.batch(vals)
}
