package props

import (
	"encoding/json"
	"fmt"
	"image"
	"image/color"
	"image/draw"
	"math"

	"github.com/reactivego/ivg"
	"github.com/reactivego/ivg/raster/vec"
	"github.com/reactivego/ivg/render"
	"verif/mc"
	"verif/rec"
	"verif/ref"
)

// C15 — gradient paint: premultiplied interpolation, spread modes, geometry.

type c15Stops []ref.Stop

func c15StopSets() []c15Stops {
	c := func(r, g, b, a uint8) color.RGBA { return color.RGBA{r, g, b, a} }
	sets := []c15Stops{
		{{Offset: 0, Color: c(0xff, 0, 0, 0xff)}, {Offset: 1, Color: c(0, 0, 0xff, 0xff)}},
		{{Offset: 0.25, Color: c(0x80, 0, 0, 0x80)}, {Offset: 0.75, Color: c(0, 0, 0, 0)}},
		{{Offset: 0, Color: c(0, 0, 0, 0)}, {Offset: 0.5, Color: c(0x10, 0x20, 0x30, 0x40)}, {Offset: 1, Color: c(0xff, 0xff, 0xff, 0xff)}},
		{{Offset: 0.125, Color: c(1, 2, 3, 4)}, {Offset: 0.25, Color: c(1, 2, 3, 4)}, {Offset: 0.5, Color: c(0xfe, 0, 0x7f, 0xff)}, {Offset: 0.625, Color: c(0, 0xff, 0, 0xff)}},
		{{Offset: 0, Color: c(0xff, 0xff, 0, 0xff)}, {Offset: 0.0078125, Color: c(0, 0, 0, 0xff)}, {Offset: 1, Color: c(0x33, 0x33, 0x33, 0x33)}},
	}
	sets = append(sets,
		c15Stops{{Offset: 0.5, Color: c(0x40, 0x40, 0x40, 0x40)}, {Offset: 0.5009765625, Color: c(0, 0, 0, 0xff)}}, // two stops 2^-10 apart
		c15Stops{{Offset: 0, Color: c(0, 0, 0, 0)}, {Offset: 0.125, Color: c(9, 9, 9, 9)}, {Offset: 0.25, Color: c(0, 0, 0, 0)}, {Offset: 0.375, Color: c(0xff, 0, 0, 0xff)},
			{Offset: 0.5, Color: c(0, 0xff, 0, 0xff)}, {Offset: 0.625, Color: c(0, 0, 0xff, 0xff)}, {Offset: 0.75, Color: c(0x7f, 0x7f, 0x7f, 0x7f)}, {Offset: 1, Color: c(1, 1, 1, 1)}},
	)
	// two stops 2^-21 apart between ordinary ones (a hard edge), in the middle of the list
	sets = append(sets, c15Stops{{Offset: 0.25, Color: c(0xff, 0, 0, 0xff)}, {Offset: 0.5, Color: c(0, 0xff, 0, 0xff)}, {Offset: 0.5 + 1.0/(1<<21), Color: c(0, 0, 0xff, 0xff)}, {Offset: 0.75, Color: c(0x20, 0x20, 0x20, 0x20)}})
	// equal end colours with other colours in between
	sets = append(sets, c15Stops{{Offset: 0, Color: c(0xff, 0, 0, 0xff)}, {Offset: 0.5, Color: c(0, 0, 0xff, 0xff)}, {Offset: 1, Color: c(0xff, 0, 0, 0xff)}})
	// every stop of one colour (still a gradient: with spread none nothing is painted outside [0,1])
	sets = append(sets, c15Stops{{Offset: 0.25, Color: c(0, 0xff, 0, 0xff)}, {Offset: 0.75, Color: c(0, 0xff, 0, 0xff)}})
	var big c15Stops
	for i := 0; i < 58; i++ {
		a := uint8(255 - 3*i)
		big = append(big, ref.Stop{Offset: float64(i) / 64, Color: c(uint8((i*4)%(int(a)+1)), a/2, uint8((i*i)%(int(a)+1)), a)})
	}
	sets = append(sets, big)
	// generated (enumerated by the thorough tier only): every stop count 2..58, offsets spread
	// unevenly over (0,1), colours cycling through opaque, translucent and transparent
	for n := 2; n <= 58; n++ {
		var g c15Stops
		for i := 0; i < n; i++ {
			off := (float64(i) + 0.25*float64(i%3)) / float64(n)
			a := []uint8{0xff, 0x80, 0x00, 0xc3}[(i+n)%4]
			g = append(g, ref.Stop{Offset: off, Color: c(uint8((i*11)%(int(a)/2+1)), uint8((i*5+n)%(int(a)+1)), a/3, a)})
		}
		sets = append(sets, g)
	}
	return sets
}

const c15QuickSets = 11

type c15Map struct {
	vb   ivg.ViewBox
	rect image.Rectangle
}

// exact maps: power-of-two scales (float32 scale exact), incl. off-origin viewBox and rect
var c15ExactMaps = []c15Map{
	{ivg.ViewBox{MinX: 0, MinY: 0, MaxX: 64, MaxY: 64}, image.Rect(0, 0, 64, 64)},
	{ivg.ViewBox{MinX: -32, MinY: -32, MaxX: 32, MaxY: 32}, image.Rect(5, 9, 133, 41)}, // scale 2 and 1/2
	{ivg.ViewBox{MinX: 8, MinY: -16, MaxX: 24, MaxY: 48}, image.Rect(0, 0, 64, 16)},    // scale 4 and 1/4
}

// exact matrices (viewBox -> gradient): dyadic entries
var c15ExactMats = [][6]float32{
	{0.125, 0, -0.0625, 0, 0.125, -0.0625},
	{0.25, 0, 1, 0, 0.25, -3},
	{-0.125, 0, 2, 0, 0.0625, 0},
	{0, 0.125, 0.5, 0.125, 0, -0.5},
	{0.03125, 0.03125, 0, -0.03125, 0.03125, 0},
	{1, 0, -1000, 0, 1, 1000},
	{0.5, 0, -8.25, 0, -0.5, 8.25},
	{0.015625, 0, 0, 0, 0.015625, 0},
	{-0.25, 0.25, 3.5, 0.25, 0.25, -3.5},
	{2, 0, -64, 0, 2, -64},
	{1 << 62 * 4, 0, 0, 0, 1 << 62 * 4, 0},            // 2^64: raw offsets far beyond any integer type
	{1.0 / (1 << 32), 0, 0.25, 0, 1.0 / (1 << 32), 0}, // 2^-32: pixels billions away are inside [0,1]
}

var c15GenMats = [][6]float32{
	{0.0333, 0.0166, 0.35, -0.011, 0.029, 0.1},
	{0.07, 0, 0.5, 0, 0.21, 0},
	{0.013, -0.041, 0.7, 0.04, 0.01, -0.2},
	{-0.2, 0.3, 3.3, 0.1, 0.1, -7.7},
	{1e-3, 2e-3, 0.5, 2e-3, -1e-3, 0.5},
	{0.11, 0.13, -1.7, 0.17, -0.19, 2.3},
	{0.9, 0, -20.1, 0, 0.9, -20.1},
	{-0.031, 0, 1.3, 0, 0, 0},
	{0, 0.027, -0.4, 0, 0, 0},
	{0.05, 0.05, 0.05, -0.05, 0.05, 0.05},
}

// generated generic matrices (thorough tier): rotation x scale x translation, with a shear
func init() {
	for ai := 0; ai < 11; ai++ {
		for si, sc := range []float64{1.0 / 3, 1.0 / 17, 1.0 / 64.5, 1.0 / 150, 1.7} {
			for ti, tr := range [][2]float64{{0.13, -0.41}, {-7.3, 11.9}} {
				a := 2 * math.Pi * (float64(ai) + 0.37) / 11
				co, si2 := math.Cos(a)*sc, math.Sin(a)*sc
				sh := 0.25 * float64((ai+si+ti)%3)
				c15GenMats = append(c15GenMats, [6]float32{float32(co), float32(-si2 + sh*co), float32(tr[0]), float32(si2), float32(co + sh*si2), float32(tr[1])})
			}
		}
	}
}

const c15QuickMats = 32

type c15Case struct {
	StopSet int    `json:"stopset"`
	Spread  int    `json:"spread"`
	Shape   int    `json:"shape"`
	Exact   bool   `json:"exact"`
	Mat     int    `json:"matrix"`
	Map     int    `json:"map"`
	PX      []int  `json:"px,omitempty"` // restrict to one pixel on replay
	PY      []int  `json:"py,omitempty"`
	Desc    string `json:"desc,omitempty"`
}

func c15Maps(exact bool) []c15Map {
	if exact {
		return c15ExactMaps
	}
	var ms []c15Map
	for _, vb := range c05VBs {
		for _, r := range c05Rects {
			ms = append(ms, c15Map{vb, r})
		}
	}
	return ms
}

func init() {
	nsets := func(tier string) int {
		_ = tier // both tiers enumerate every stop list; the tiers differ in matrices and lattice
		return len(c15StopSets())
	}
	mc.Register(&mc.Check{
		ID:    "C15",
		Level: "exploration",
		Rule: "engine P over (stops x spread x shape x matrix x map x pixel): 11 stop lists (2,2,3,4,3,2,8,4,3,2,58 stops; first>0, last<1, transparent, equal neighbours, stops 2^-10 apart) x 4 spreads x 2 shapes; exact family: 12 dyadic matrices (one with entries 2^64, one with 2^-32 and pixels up to 2^40) x 3 power-of-two viewBox/rectangle maps x pixel sweeps landing exactly on integers, stop offsets, midpoints and +-1000 (compared at the discontinuities, exact equality at stops); " +
			"generic family: 32 (thorough 120: 10 hand-made + 11 rotations x 5 scales x 2 translations, sheared) matrices x 12 maps x a 33x33 (thorough 129x129 for the 11 hand-made stop lists) pixel lattice; both tiers also run 57 generated stop lists, one per stop count 2..58 (33x33 lattice) incl. negative coordinates (pixels within 1e-9 of a discontinuity of the active spread skipped and counted). The paint is obtained as a user gets it: register writes + gradient colour + full-rectangle path on a real Renderer, src image taken from Rasterizer.Draw; At(x,y) and the GradientConfig accessors are compared with the reference; a subset is rendered with raster/vec into an RGBA64 image. " +
			"distinct = hash of (spread-mapped region, exactness, shape); non-trivial = pixel whose raw offset lies outside [0,1] or exactly on a stop",
		Assumptions: []string{"|At - v| <= 1 of 65535 per channel (truncation vs rounding is not the property's subject)", "accessor matrix compared within 2^-40 (exact family) / 2^-21 (generic family: the renderer's scale is a float32) relative to the magnitude of the terms"},
		Units:       func(tier string) int { return nsets(tier) * 4 * 2 * 2 },
		Run: func(w *mc.W, u int) {
			cs := c15Case{StopSet: u / 16, Spread: u / 4 % 4, Shape: u / 2 % 2, Exact: u%2 == 0}
			mats := c15GenMats
			if !w.Thorough {
				mats = mats[:c15QuickMats]
			}
			if cs.Exact {
				mats = c15ExactMats
			}
			for mi := range mats {
				for mp := range c15Maps(cs.Exact) {
					if w.Expired() {
						return
					}
					c := cs
					c.Mat, c.Map = mi, mp
					c15Check(w, &c)
				}
			}
		},
		Replay: func(w *mc.W, data json.RawMessage) error {
			var cs c15Case
			if err := unmarshalCase(data, &cs); err != nil {
				return err
			}
			c15Check(w, &cs)
			return nil
		},
		Post: postDistinct(12),
	})
}

// c15Paint runs the program on a real Renderer and returns the paint handed to Draw.
func c15Paint(stops c15Stops, spread, shape int, m [6]float32, mp c15Map, ras *rec.Raster) *rec.Paint {
	dr, _ := c15Paint2(stops, spread, shape, m, mp, ras, c15Layouts[0])
	if dr == nil {
		return nil
	}
	return &dr.Paint
}

// c15Square draws the whole viewBox with CREG[8] and returns the Draw call.
func c15Square(z *render.Renderer, mp c15Map, ras *rec.Raster) *rec.RCall {
	n0 := len(ras.Calls)
	z.StartPath(0, mp.vb.MinX, mp.vb.MinY)
	z.AbsLineTo(mp.vb.MaxX, mp.vb.MinY)
	z.AbsLineTo(mp.vb.MaxX, mp.vb.MaxY)
	z.AbsLineTo(mp.vb.MinX, mp.vb.MaxY)
	z.ClosePathEndPath()
	for i := n0; i < len(ras.Calls); i++ {
		if ras.Calls[i].K == rec.RDraw {
			return &ras.Calls[i]
		}
	}
	return nil
}

// register layouts: colour base, number base, register of the gradient value. With 58 stops the
// stop registers wrap in every layout; in the second and third the six matrix registers
// NREG[NBASE-6..NBASE-1] wrap past NREG[63] resp. the offsets do.
type c15Layout struct{ cbase, nbase, gsel uint8 }

var c15Layouts = []c15Layout{{12, 20, 8}, {60, 3, 56}, {5, 62, 2}}

func c15Paint2(stops c15Stops, spread, shape int, m [6]float32, mp c15Map, ras *rec.Raster, lay c15Layout) (*rec.RCall, *render.Renderer) {
	z := new(render.Renderer)
	ras.ResetLog()
	pal := ivg.DefaultPalette
	fromPalette := lay.cbase == 60
	if fromPalette {
		// the stop colours are never written: they are the registers' initial content, the palette
		for i, s := range stops {
			pal[(int(lay.cbase)+i)&63] = s.Color
		}
	}
	if lay.nbase%2 == 0 {
		z.SetRasterizer(ras, mp.rect)
		z.Reset(mp.vb, pal)
	} else {
		// the target is configured twice: another rectangle first, the final one only after Reset
		z.SetRasterizer(ras, image.Rect(3, 1, 3+mp.rect.Dy()+5, 1+mp.rect.Dx()+2))
		z.Reset(mp.vb, pal)
		z.SetRasterizer(ras, mp.rect)
	}
	z.SetCSel(lay.cbase)
	z.SetNSel(lay.nbase)
	for i := 0; i < 6; i++ {
		z.SetNReg(uint8(6-i), false, m[i])
	}
	for _, s := range stops {
		if !fromPalette {
			z.SetCReg(0, true, ivg.RGBAColor(s.Color))
		}
		z.SetNReg(0, true, float32(s.Offset))
	}
	z.SetCSel(lay.gsel)
	z.SetCReg(0, false, ivg.RGBAColor(color.RGBA{uint8(len(stops)), lay.cbase | uint8(spread)<<6, lay.nbase | 0x80 | uint8(shape)<<6, 0}))
	return c15Square(z, mp, ras), z
}

func c15Check(w *mc.W, cs *c15Case) {
	stops := c15StopSets()[cs.StopSet]
	mats := c15GenMats
	if cs.Exact {
		mats = c15ExactMats
	}
	m := mats[cs.Mat]
	mp := c15Maps(cs.Exact)[cs.Map]
	var ras rec.Raster
	desc := fmt.Sprintf("stops %v spread %d shape %d matrix %v viewBox %v rect %v (CBASE %d NBASE %d)", stops, cs.Spread, cs.Shape, m, mp.vb, mp.rect, c15Layouts[(cs.Mat+cs.Map)%len(c15Layouts)].cbase, c15Layouts[(cs.Mat+cs.Map)%len(c15Layouts)].nbase)
	fail := func(key, what string, px, py int) {
		c := *cs
		c.Desc = desc
		if px != math.MinInt32 {
			c.PX, c.PY = []int{px}, []int{py}
		}
		w.Fail(key, desc+": "+what, c)
	}
	lay := c15Layouts[(cs.Mat+cs.Map)%len(c15Layouts)]
	dr, z := c15Paint2(stops, cs.Spread, cs.Shape, m, mp, &ras, lay)
	oneColour := true
	for _, s := range stops {
		if s.Color != stops[0].Color {
			oneColour = false
		}
	}
	// every stop of one colour: a uniform paint is the same picture wherever the gradient paints
	// at all; it is then judged by its pixels alone (no accessors, no repaints)
	uniform := dr != nil && dr.Paint.Kind == 1 && oneColour
	if dr == nil || (dr.Paint.Kind != 2 && !uniform) {
		fail("no-gradient-paint", fmt.Sprintf("valid gradient was not handed to the rasteriser (%v)", dr), math.MinInt32, 0)
		return
	}
	p := &dr.Paint
	if dr.R != mp.rect {
		fail("draw-rect", fmt.Sprintf("Draw over %v, target rectangle %v", dr.R, mp.rect), math.MinInt32, 0)
		return
	}
	// The rasteriser samples the paint at sp + (pixel relative to the rectangle): judge the
	// paint in rectangle-relative pixel space, whatever source point the Renderer chose.
	spx, spy := float64(dr.SP.X), float64(dr.SP.Y)
	p.M[2] += p.M[0]*spx + p.M[1]*spy
	p.M[5] += p.M[3]*spx + p.M[4]*spy
	// accessors
	okAcc := p.Shape == cs.Shape && p.Spread == cs.Spread && len(p.Colors) == len(stops) && len(p.Offsets) == len(stops)
	if okAcc {
		for i, s := range stops {
			if p.Colors[i] != s.Color || p.Offsets[i] != float64(float32(s.Offset)) {
				okAcc = false
			}
		}
	}
	if !okAcc && !uniform {
		fail("accessors:stops", fmt.Sprintf("GradientConfig reports shape %d spread %d colors %v offsets %v", p.Shape, p.Spread, p.Colors, p.Offsets), math.MinInt32, 0)
		return
	}
	// pixel -> gradient = (viewBox -> gradient) o (pixel -> viewBox)
	sx := float64(mp.rect.Dx()) / (float64(mp.vb.MaxX) - float64(mp.vb.MinX))
	sy := float64(mp.rect.Dy()) / (float64(mp.vb.MaxY) - float64(mp.vb.MinY))
	ox, oy := float64(mp.vb.MinX), float64(mp.vb.MinY)
	var want [6]float64
	var mag [6]float64
	for r := 0; r < 2; r++ {
		a, b, c := float64(m[3*r]), float64(m[3*r+1]), float64(m[3*r+2])
		want[3*r], want[3*r+1], want[3*r+2] = a/sx, b/sy, c+a*ox+b*oy
		mag[3*r], mag[3*r+1] = math.Abs(a/sx), math.Abs(b/sy)
		mag[3*r+2] = math.Abs(c) + math.Abs(a*ox) + math.Abs(b*oy)
	}
	tolM := math.Ldexp(1, -21)
	if cs.Exact {
		tolM = math.Ldexp(1, -40)
	}
	rows := 2
	if cs.Shape == 0 {
		rows = 1 // the bottom row is ignored for linear gradients
	}
	for i := 0; i < 3*rows && !uniform; i++ {
		if !(math.Abs(p.M[i]-want[i]) <= tolM*mag[i]+1e-300) {
			fail("accessors:transform", fmt.Sprintf("Transform()[%d] = %g, composition of the viewBox-to-gradient matrix with the pixel-to-viewBox map gives %g", i, p.M[i], want[i]), math.MinInt32, 0)
			return
		}
	}
	// reference stops with float32-rounded offsets (that is what the registers hold)
	rstops := make([]ref.Stop, len(stops))
	for i, s := range stops {
		rstops[i] = ref.Stop{Offset: float64(float32(s.Offset)), Color: s.Color}
	}
	M := want
	if !cs.Exact && !uniform {
		M = p.M // validated above; avoids attributing the float32 scale rounding to At
	}
	// pixel sets
	var pxs, pys []int
	if cs.PX != nil {
		pxs, pys = cs.PX, cs.PY
	} else if cs.Exact {
		for x := -40; x <= 200; x++ {
			pxs = append(pxs, x)
		}
		pxs = append(pxs, -1000, 999, 1000, 8000, -8001, 123456, 1<<31, -(1 << 31), 3<<30, 1<<40)
		pys = []int{0, 3, -4, 12, 1000}
	} else {
		for i := -8; i <= 24; i++ {
			pxs = append(pxs, i*3-2)
			pys = append(pys, i*5+1)
		}
		if w.Thorough && cs.StopSet < c15QuickSets {
			pxs, pys = pxs[:0], pys[:0]
			for i := -32; i <= 96; i++ {
				pxs = append(pxs, i)
				pys = append(pys, i*2-7)
			}
		}
	}
	img := p.Img
	for _, py := range pys {
		for _, px := range pxs {
			w.EvalN(1)
			cx, cy := float64(px)+0.5, float64(py)+0.5
			gx := M[0]*cx + M[1]*cy + M[2]
			o := gx
			if cs.Shape == 1 {
				gy := M[3]*cx + M[4]*cy + M[5]
				o = math.Sqrt(gx*gx + gy*gy)
			}
			if !cs.Exact && ref.NearDiscontinuity(cs.Spread, o, 1e-9) {
				w.Skip()
				continue
			}
			r, g, b, a := img.At(px+dr.SP.X, py+dr.SP.Y).RGBA()
			got := [4]float64{float64(r), float64(g), float64(b), float64(a)}
			if r > a || g > a || b > a {
				fail("not-premultiplied", fmt.Sprintf("At(%d,%d) = %v is not a valid premultiplied colour", px, py, got), px, py)
				return
			}
			so, visible := ref.SpreadOffset(cs.Spread, o)
			var wantC [4]float64
			exactStop := true
			region := "inside"
			if !visible {
				region = "none-outside"
			} else {
				wantC, exactStop = ref.GradColor(rstops, so)
				if o < 0 || o > 1 {
					region = "outside"
				}
			}
			// one unit of 65535 (truncation vs rounding), plus the float64 noise of the reference
			// itself: a true value within 1e-10 of an integer may be truncated either way
			tol := 1.0 + 1e-6
			if exactStop && cs.Exact {
				tol = 0
			}
			for k := 0; k < 4; k++ {
				if math.Abs(got[k]-wantC[k]) > tol {
					key := "at:interpolation"
					switch {
					case !visible:
						key = "at:spread-none-outside"
					case region == "outside":
						key = fmt.Sprintf("at:spread-%d-outside", cs.Spread)
						if cs.Spread == 2 && o == math.Trunc(o) && int64(o)%2 != 0 {
							key = "at:reflect-spread@odd-integer-offset"
						}
					case exactStop:
						key = "at:stop-colour"
					}
					fail(key, fmt.Sprintf("At(%d,%d): raw offset %g -> %g, got %v want %v", px, py, o, so, got, wantC), px, py)
					return
				}
			}
			h := mc.NewHasher()
			h.Str(region)
			h.Bool(exactStop)
			h.Byte(byte(cs.Shape))
			h.Byte(byte(cs.Spread))
			w.Outcome(h.Sum(), region != "inside" || exactStop)
		}
	}
	if w.WantSample() {
		w.Sample(map[string]any{"config": desc, "pixels": len(pxs) * len(pys), "transform": p.M})
	}
	// subset: render with raster/vec into an RGBA64 image and compare interior pixels
	if cs.Mat == 0 && cs.PX == nil && mp.rect.Min == (image.Point{}) && !uniform {
		dst := image.NewRGBA64(mp.rect)
		vz := vec.NewRasterizer(dst)
		vz.DrawOp = draw.Src
		var z render.Renderer
		z.SetRasterizer(vz, mp.rect)
		pr := &rec.Raster{Next: vz}
		c15Paint(stops, cs.Spread, cs.Shape, m, mp, pr)
		_ = z
		for py := 1; py < mp.rect.Dy()-1; py += 3 {
			for px := 1; px < mp.rect.Dx()-1; px += 3 {
				w.EvalN(1)
				want := img.At(px, py)
				wr, wg, wb, wa := want.RGBA()
				c := dst.RGBA64At(px, py)
				d := func(a uint32, b uint16) float64 { return math.Abs(float64(a) - float64(b)) }
				if d(wr, c.R) > 2 || d(wg, c.G) > 2 || d(wb, c.B) > 2 || d(wa, c.A) > 2 {
					fail("pixels:vec", fmt.Sprintf("interior pixel (%d,%d) rendered as %v, paint says %v", px, py, c, want), px, py)
					return
				}
			}
		}
	}
	// The same Renderer paints again after only registers changed: (2) the matrix registers,
	// (3) one stop colour, (4) one stop offset. The gradient value in CREG[8] stays as it is.
	if cs.PX == nil && !uniform {
		var m2 [6]float32
		for i := range m2 {
			m2[i] = m[i] * []float32{0.5, -2, 1, 0.25, 4, -1}[i]
			if i == 2 || i == 5 {
				m2[i] += 0.25
			}
		}
		z.SetNSel(lay.nbase)
		for i := 0; i < 6; i++ {
			z.SetNReg(uint8(6-i), false, m2[i])
		}
		step := func(n int, wantStops []ref.Stop) bool {
			d := c15Square(z, mp, &ras)
			w.EvalN(1)
			if d == nil || d.Paint.Kind != 2 {
				fail(fmt.Sprintf("repaint-%d:no-gradient-paint", n), "the gradient is still valid after the register change but was not handed to the rasteriser", math.MinInt32, 0)
				return false
			}
			q := &d.Paint
			qx, qy := float64(d.SP.X), float64(d.SP.Y)
			q.M[2] += q.M[0]*qx + q.M[1]*qy
			q.M[5] += q.M[3]*qx + q.M[4]*qy
			for r := 0; r < rows; r++ {
				a, b, c := float64(m2[3*r]), float64(m2[3*r+1]), float64(m2[3*r+2])
				wm := [3]float64{a / sx, b / sy, c + a*ox + b*oy}
				mg := [3]float64{math.Abs(a / sx), math.Abs(b / sy), math.Abs(c) + math.Abs(a*ox) + math.Abs(b*oy)}
				for k := 0; k < 3; k++ {
					if !(math.Abs(q.M[3*r+k]-wm[k]) <= tolM*mg[k]+1e-300) {
						fail(fmt.Sprintf("repaint-%d:transform", n), fmt.Sprintf("after the matrix registers changed to %v, path %d is painted with Transform()[%d] = %g, expected %g", m2, n, 3*r+k, q.M[3*r+k], wm[k]), math.MinInt32, 0)
						return false
					}
				}
			}
			if len(q.Colors) != len(wantStops) || len(q.Offsets) != len(wantStops) {
				fail(fmt.Sprintf("repaint-%d:stops", n), fmt.Sprintf("path %d painted with %d stops, registers hold %d", n, len(q.Colors), len(wantStops)), math.MinInt32, 0)
				return false
			}
			for i, s := range wantStops {
				if q.Colors[i] != s.Color || q.Offsets[i] != s.Offset {
					fail(fmt.Sprintf("repaint-%d:stops", n), fmt.Sprintf("path %d painted with stop %d = (%g, %v), registers hold (%g, %v)", n, i, q.Offsets[i], q.Colors[i], s.Offset, s.Color), math.MinInt32, 0)
					return false
				}
			}
			return true
		}
		cur := append([]ref.Stop(nil), rstops...)
		if step(2, cur) {
			last := len(cur) - 1
			cur[last].Color = color.RGBA{0x12, 0x34, 0x56, 0x78}
			z.SetCSel((lay.cbase + uint8(last)) & 63)
			z.SetCReg(0, false, ivg.RGBAColor(cur[last].Color))
			z.SetCSel(lay.gsel)
			if step(3, cur) {
				// move the first stop down (stays strictly increasing and within [0,1] when it was > 0;
				// otherwise move the last stop up towards 1)
				if cur[0].Offset > 0 {
					cur[0].Offset = float64(float32(cur[0].Offset / 2))
					z.SetNSel(lay.nbase)
					z.SetNReg(0, false, float32(cur[0].Offset))
				} else if cur[last].Offset < 1 {
					cur[last].Offset = float64(float32((cur[last].Offset + 1) / 2))
					z.SetNSel((lay.nbase + uint8(last)) & 63)
					z.SetNReg(0, false, float32(cur[last].Offset))
				}
				if step(4, cur) {
					// (5) the raster is configured anew with another rectangle and the same gradient
					// paints again, no register written in between: the pixel scale is the new one
					old := mp
					mp = c15Map{vb: old.vb, rect: image.Rect(2, 3, 2+old.rect.Dy()+7, 3+old.rect.Dx()+4)}
					sx = float64(mp.rect.Dx()) / (float64(mp.vb.MaxX) - float64(mp.vb.MinX))
					sy = float64(mp.rect.Dy()) / (float64(mp.vb.MaxY) - float64(mp.vb.MinY))
					z.SetRasterizer(&ras, mp.rect)
					step(5, cur)
					mp = old
				}
			}
		}
	}
}
