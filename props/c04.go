package props

import (
	"encoding/json"
	"fmt"
	"image"
	"image/color"
	"math"

	"github.com/reactivego/ivg"
	"github.com/reactivego/ivg/decode"
	"github.com/reactivego/ivg/encode"
	"github.com/reactivego/ivg/render"
	"verif/mc"
	"verif/rec"
	"verif/ref"
)

// C04 — each path gets the paint the register machine prescribes, or none.
// Engine S: real Renderer in lock step with ref.VM.

var c04Heights = []int{0, 1, 8, 64, 65}

var c04Pals = func() [][64]color.RGBA {
	a := ivg.DefaultPalette
	var b, c [64]color.RGBA
	for i := range b {
		u := uint8(i)
		b[i] = color.RGBA{u * 4, 255 - u*3, u*7 + 1, 0xff}
		c[i] = color.RGBA{u, u, u, 0xff}
	}
	b[1] = color.RGBA{0x20, 0x30, 0x10, 0x40}
	c[0] = color.RGBA{0x90, 0x10, 0x10, 0x80}  // invalid premultiplied
	c[1] = color.RGBA{0x02, 0x4a, 0x8a, 0x00}  // gradient-looking
	c[62] = color.RGBA{0, 0, 0, 0}             // transparent
	c[63] = color.RGBA{0x00, 0x00, 0x7f, 0x00} // invalid, not a gradient
	return [][64]color.RGBA{a, b, c}
}()

// c04Letter: a styling call; LOD letters are expressed relative to the height.
type c04Letter struct {
	call rec.Call
	lod  int // 0: plain call; else index into c04LOD
}

var nanF = float32(math.NaN())
var pinfF = float32(math.Inf(1))
var ninfF = float32(math.Inf(-1))

// LOD pairs as functions of the raster height H
var c04LOD = []func(h float32) (float32, float32){
	nil,
	func(h float32) (float32, float32) { return 0, h },
	func(h float32) (float32, float32) { return h, pinfF },
	func(h float32) (float32, float32) { return h + 1, pinfF },
	func(h float32) (float32, float32) { return 0, h + 1 },
	func(h float32) (float32, float32) { return ninfF, pinfF },
	func(h float32) (float32, float32) { return nanF, pinfF },
	func(h float32) (float32, float32) { return 0, nanF },
	func(h float32) (float32, float32) { return h - 1, h },
	func(h float32) (float32, float32) { return h, h },
}

var c04Letters = func() []c04Letter {
	var ls []c04Letter
	add := func(c rec.Call) { ls = append(ls, c04Letter{call: c}) }
	for _, s := range []uint8{0, 1, 32, 62, 63} { // both ends of the wrap and the top bit of the 6-bit selector
		add(rec.Call{M: rec.MSetCSel, Adj: s})
	}
	for _, s := range []uint8{0, 1, 33, 62, 63} {
		add(rec.Call{M: rec.MSetNSel, Adj: s})
	}
	for _, c := range domCol {
		add(rec.Call{M: rec.MSetCReg, C: c})
	}
	// gradient colour values addressing registers that the number letters below fill
	add(rec.Call{M: rec.MSetCReg, C: rgba(0x02, 0x40|62, 0x80|0, 0x00)}) // 2 stops CBASE 62 (wraps), NBASE 0, pad
	add(rec.Call{M: rec.MSetCReg, C: rgba(0x03, 0x80|0, 0xc0|62, 0x00)}) // 3 stops CBASE 0, NBASE 62 (wraps), radial reflect
	for _, ci := range []int{0, 9, 10, 11, 15, 20} {
		add(rec.Call{M: rec.MSetCReg, Adj: 1, C: domCol[ci]})
		add(rec.Call{M: rec.MSetCReg, Adj: 6, C: domCol[ci]})
		add(rec.Call{M: rec.MSetCReg, Incr: true, C: domCol[ci]})
	}
	// every ADJ value once more (2..5 are not covered by the 0/1/6 letters)
	for adj := uint8(2); adj <= 5; adj++ {
		add(rec.Call{M: rec.MSetCReg, Adj: adj, C: domCol[int(adj)*3%len(domCol)]})
		add(rec.Call{M: rec.MSetNReg, Adj: adj, A: [6]float32{float32(adj) / 8}})
	}
	for _, f := range []float32{0, 0.25, 0.5, 1, -0.1, 1.5, nanF} {
		add(rec.Call{M: rec.MSetNReg, A: [6]float32{f}})
	}
	for _, f := range []float32{0.25, 1, 1.5} {
		add(rec.Call{M: rec.MSetNReg, Adj: 1, A: [6]float32{f}})
		add(rec.Call{M: rec.MSetNReg, Adj: 6, A: [6]float32{f}})
		add(rec.Call{M: rec.MSetNReg, Incr: true, A: [6]float32{f}})
	}
	for i := 1; i < len(c04LOD); i++ {
		ls = append(ls, c04Letter{lod: i})
	}
	return ls
}()

type c04Case struct {
	Kind    string `json:"kind"` // history | gradient
	Letters []int  `json:"letters,omitempty"`
	Height  int    `json:"height"`
	Pal     int    `json:"palette"`
	Probes  []int  `json:"probe_adjs,omitempty"`
	Reused  bool   `json:"renderer_reused,omitempty"` // a dirtying prelude runs on the same Renderer before Reset
	G       [3]int `json:"cbase_nbase_nstops,omitempty"`
	Tmpl    int    `json:"template,omitempty"`
	Desc    string `json:"desc,omitempty"`
}

func c04Depth(tier string) int {
	if tier == "thorough" {
		return 4
	}
	return 3
}

const c04Templates = 7

func init() {
	nl := len(c04Letters)
	mc.Register(&mc.Check{
		ID:    "C04",
		Level: "model_checking",
		Rule: fmt.Sprintf("engine S: every history of <=3 (thorough <=4) styling calls over a %d-letter alphabet (CSEL/NSEL in {0,1,32/33,62,63}; SetCReg with ADJ 0/1/6 and increment (ADJ 2..5 once each) over %d colour classes incl. palette, register, blend, gradient, invalid and transparent values; SetNReg over {0,.25,.5,1,-.1,1.5,NaN}; 9 LOD pairs around the raster height incl. infinities and NaN), each followed by probe paths with ADJ 0, 1, 6 (and two consecutive probes), x raster heights {0,1,8,64,65} x 3 custom palettes, on a real Renderer over a recording rasteriser in lock step with the specification VM; ", nl, len(domCol)) +
			"plus the gradient table: every (CBASE,NBASE,NSTOPS) in 64^3 x 7 register-file templates. After every probe: no rasteriser activity iff the VM says not drawn; else exactly one Reset/Draw pair whose paint (flat colour, or gradient shape/spread/stop colours/offsets) equals the VM's. Programs of depth <=2 are also assembled by the Encoder and run through Decode. " +
			"states = (history, height, palette) executed, transitions = calls; non-trivial = probe painted with a gradient or skipped",
		Assumptions: []string{"NSTOPS < 2 is left unjudged (neither the specification nor C04 defines it)", "gradient matrix geometry is C15/C19's subject; here only stops, shape and spread"},
		Units:       func(tier string) int { return nl*len(c04Pals) + 64 },
		Run: func(w *mc.W, u int) {
			st := &c04State{w: w}
			if u >= nl*len(c04Pals) {
				st.gradientTable(u - nl*len(c04Pals))
				return
			}
			pal, l0 := u/nl, u%nl
			D := c04Depth(w.Tier)
			seq := make([]int, 0, D)
			var rc func()
			rc = func() {
				if w.Expired() {
					return
				}
				for _, h := range c04Heights {
					st.history(&c04Case{Kind: "history", Letters: seq, Height: h, Pal: pal, Probes: []int{0, 1}})
					st.history(&c04Case{Kind: "history", Letters: seq, Height: h, Pal: pal, Probes: []int{6, 0}})
					if len(seq) <= 2 {
						st.history(&c04Case{Kind: "history", Letters: seq, Height: h, Pal: pal, Probes: []int{1, 0}, Reused: true})
						st.history(&c04Case{Kind: "history", Letters: seq, Height: h, Pal: pal, Probes: []int{2, 3}})
						st.history(&c04Case{Kind: "history", Letters: seq, Height: h, Pal: pal, Probes: []int{4, 5}})
					}
				}
				if len(seq) == D {
					return
				}
				for l := 0; l < nl; l++ {
					seq = append(seq, l)
					rc()
					seq = seq[:len(seq)-1]
				}
			}
			seq = append(seq, l0)
			rc()
			w.Depth(D)
		},
		Replay: func(w *mc.W, data json.RawMessage) error {
			var cs c04Case
			if err := unmarshalCase(data, &cs); err != nil {
				return err
			}
			st := &c04State{w: w}
			if cs.Kind == "gradient" {
				st.gradientOne(cs.G[0], cs.G[1], cs.G[2], cs.Tmpl)
			} else {
				st.history(&cs)
			}
			return nil
		},
		Post: func(tier string, m *mc.Result) string {
			if m.Counters["painted_gradient"] == 0 || m.Counters["not_drawn"] == 0 || m.Counters["painted_flat"] == 0 {
				return fmt.Sprintf("paint classes not all reached: %v", m.Counters)
			}
			return postDistinct(20)(tier, m)
		},
	})
}

type c04State struct {
	w    *mc.W
	ras  rec.Raster
	z    render.Renderer
	rect image.Rectangle // the raster the Renderer under test draws into (viewBox: the default)
	vm   ref.VM
}

func (st *c04State) applyBoth(c *rec.Call) {
	c.Apply(&st.z)
	switch c.M {
	case rec.MSetCSel:
		st.vm.SetCSel(c.Adj)
	case rec.MSetNSel:
		st.vm.SetNSel(c.Adj)
	case rec.MSetCReg:
		k, d := rec.ColorParts(c.C)
		st.vm.SetCReg(c.Adj, c.Incr, ref.Color{Kind: k, D: d})
	case rec.MSetNReg:
		st.vm.SetNReg(c.Adj, c.Incr, c.A[0])
	case rec.MSetLOD:
		st.vm.SetLOD(c.A[0], c.A[1])
	}
}

func c04Calls(letters []int, height int) []rec.Call {
	var cs []rec.Call
	for _, l := range letters {
		L := c04Letters[l]
		if L.lod != 0 {
			a, b := c04LOD[L.lod](float32(height))
			cs = append(cs, rec.Call{M: rec.MSetLOD, A: [6]float32{a, b}})
		} else {
			cs = append(cs, L.call)
		}
	}
	return cs
}

// c04ProbePath is the probe path: one operation of every kind whose rasteriser calls are fixed in number
// (two lines, an arc with a zero radius — a line when drawn —, a quadratic, a smooth cubic, a
// close-and-move, a horizontal line): 12 rasteriser calls when drawn, none at all when not.
func c04ProbePath(d ivg.Destination, adj uint8) {
	d.StartPath(adj, -10, -10)
	d.AbsLineTo(10, -10)
	d.RelLineTo(-10, 20)
	d.RelArcTo(0, 5, 0.125, true, false, 3, -4)
	d.RelQuadTo(1, 1, 2, 0)
	d.RelSmoothCubeTo(1, 1, 2, 2)
	d.ClosePathRelMoveTo(1, 1)
	d.RelHLineTo(3)
	d.ClosePathEndPath()
}

const c04ProbeCalls = 12 // Reset, MoveTo, 3 LineTo, QuadTo, CubeTo, ClosePath, MoveTo, LineTo, ClosePath, Draw

// probe draws the probe path with the given ADJ and judges the rasteriser activity.
func (st *c04State) probe(adj uint8, height int, fail func(key, what string)) bool {
	w := st.w
	st.ras.ResetLog()
	c04ProbePath(&st.z, adj)
	want := st.vm.StartPath(adj, height)
	calls := st.ras.Calls
	switch want.Kind {
	case ref.PaintUnjudged:
		w.Count("unjudged_nstops_lt_2", 1)
		return true
	case ref.PaintNone:
		w.Count("not_drawn", 1)
		if len(calls) != 0 {
			fail("drawn-but-should-skip:"+want.Why, fmt.Sprintf("path must cause no rasteriser activity (%s) but got %s", want.Why, rec.RCallsString(calls)))
			return false
		}
		return true
	}
	// drawn: see c04ProbePath
	nReset, nDraw := 0, 0
	var paint *rec.Paint
	var sp image.Point
	for i := range calls {
		switch calls[i].K {
		case rec.RReset:
			nReset++
		case rec.RDraw:
			nDraw++
			paint, sp = &calls[i].Paint, calls[i].SP
		}
	}
	if nReset != 1 || nDraw != 1 || len(calls) != c04ProbeCalls {
		fail("skipped-but-should-draw", fmt.Sprintf("path should be drawn with %v but rasteriser saw %s", want, rec.RCallsString(calls)))
		return false
	}
	if want.Kind == ref.PaintFlat {
		w.Count("painted_flat", 1)
		if paint.Kind != 1 || !paint.FlatOK || paint.Flat8 != want.Flat {
			fail("wrong-flat-paint", fmt.Sprintf("path should be filled with %v, rasteriser got %s", want.Flat, *paint))
			return false
		}
		return true
	}
	w.Count("painted_gradient", 1)
	if paint.Kind != 2 {
		fail("wrong-paint-kind", fmt.Sprintf("path should be filled with a gradient, rasteriser got %s", *paint))
		return false
	}
	ok := paint.Shape == want.Shape && paint.Spread == want.Spread && len(paint.Colors) == len(want.Stops) && len(paint.Offsets) == len(want.Stops)
	if ok {
		for i, s := range want.Stops {
			if paint.Colors[i] != s.Color || paint.Offsets[i] != s.Offset {
				ok = false
			}
		}
	}
	if !ok {
		fail("wrong-gradient-paint", fmt.Sprintf("gradient should have shape %d spread %d stops %v, rasteriser got %s", want.Shape, want.Spread, want.Stops, *paint))
		return false
	}
	// the six matrix registers NREG[NBASE-6 .. NBASE-1] (modulo 64), composed with the pixel map
	// (C15 and C19 judge what the matrix means; here: that it is read from the right registers)
	if st.rect.Dx() > 0 && st.rect.Dy() > 0 {
		vb := ivg.DefaultViewBox
		sx := float64(st.rect.Dx()) / float64(vb.MaxX-vb.MinX)
		sy := float64(st.rect.Dy()) / float64(vb.MaxY-vb.MinY)
		ox, oy := float64(vb.MinX), float64(vb.MinY)
		rows := 1 + want.Shape
		for r := 0; r < rows; r++ {
			a, b, c := float64(want.Matrix[3*r]), float64(want.Matrix[3*r+1]), float64(want.Matrix[3*r+2])
			wm := [3]float64{a / sx, b / sy, c + a*ox + b*oy}
			mg := [3]float64{math.Abs(a / sx), math.Abs(b / sy), math.Abs(c) + math.Abs(a*ox) + math.Abs(b*oy)}
			for k := 0; k < 3; k++ {
				if math.IsNaN(wm[k]) || math.IsInf(wm[k], 0) {
					continue
				}
				got := paint.M[3*r+k]
				if k == 2 { // rectangle-relative pixel space, whatever source point Draw was given
					got += paint.M[3*r]*float64(sp.X) + paint.M[3*r+1]*float64(sp.Y)
				}
				if !(math.Abs(got-wm[k]) <= math.Ldexp(mg[k], -20)+1e-300) {
					fail("wrong-gradient-matrix", fmt.Sprintf("matrix registers hold %v: Transform()[%d] should be %g, rasteriser got %g", want.Matrix, 3*r+k, wm[k], got))
					return false
				}
			}
		}
	}
	return true
}

func (st *c04State) history(cs *c04Case) {
	w := st.w
	w.Eval()
	w.State(1)
	rect := image.Rect(0, 0, 32, cs.Height)
	if (cs.Pal+cs.Height)%2 == 1 {
		rect = image.Rect(3, 7, 35, 7+cs.Height) // the raster HEIGHT counts, not its bottom edge
	}
	pal := c04Pals[cs.Pal]
	st.z = render.Renderer{}
	st.ras.Fresh()
	st.rect = rect
	// alternating from case to case: the plain order on a Renderer value that was copied after
	// it had been configured, or the target configured twice (another height first, the final
	// rectangle only after Reset)
	twice := (cs.Pal+cs.Height+len(cs.Letters)+len(cs.Probes))%2 == 1
	if twice {
		st.z.SetRasterizer(&st.ras, image.Rect(1, 2, 20, 2+cs.Height+7))
	} else {
		// configured elsewhere and handed over by value (a helper returning a Renderer)
		var tmp render.Renderer
		tmp.SetRasterizer(&st.ras, rect)
		st.z = tmp
	}
	if cs.Reused {
		// the same Renderer rendered another graphic with the SAME palette before: every colour and
		// number register, both selectors and the LOD are dirty when Reset is called
		st.z.Reset(ivg.DefaultViewBox, pal)
		for i := 0; i < 64; i++ {
			st.z.SetCReg(0, true, rgba(uint8(4*i), 0x11, uint8(255-i), 0xff))
			st.z.SetNReg(0, true, 0.5+float32(i))
		}
		st.z.SetCSel(13)
		st.z.SetNSel(17)
		st.z.SetLOD(float32(cs.Height)+5, float32(cs.Height)+6)
		st.z.StartPath(0, 0, 0)
		st.z.AbsQuadTo(1, 2, 3, 4)
	}
	st.z.Reset(ivg.DefaultViewBox, pal)
	if twice {
		st.z.SetRasterizer(&st.ras, rect)
	}
	st.vm.Reset(pal)
	calls := c04Calls(cs.Letters, cs.Height)
	fail := func(key, what string) {
		c := *cs
		c.Letters = append([]int(nil), cs.Letters...)
		c.Desc = fmt.Sprintf("rect %v palette %d reused=%v history [%s] probes %v", rect, cs.Pal, cs.Reused, rec.CallsString(calls), cs.Probes)
		w.Fail(key, c.Desc+": "+what, c)
	}
	for i := range calls {
		st.applyBoth(&calls[i])
	}
	w.Transition(int64(len(calls) + len(cs.Probes)))
	h := mc.NewHasher()
	nt := false
	for _, adj := range cs.Probes {
		if !st.probe(uint8(adj), cs.Height, fail) {
			return
		}
		p := st.vm.StartPath(uint8(adj), cs.Height)
		h.Byte(byte(p.Kind))
		h.Str(p.Why)
		if p.Kind != ref.PaintFlat {
			nt = true
		}
	}
	h.Byte(byte(cs.Height))
	for _, l := range cs.Letters {
		h.Byte(byte(l))
	}
	w.Outcome(h.Sum(), nt)
	// opcode level: the same program through Encoder -> Decode -> fresh Renderer
	if len(cs.Letters) <= 2 {
		var e encode.Encoder
		e.Reset(ivg.DefaultViewBox, ivg.DefaultPalette)
		for i := range calls {
			calls[i].Apply(&e)
		}
		for _, adj := range cs.Probes {
			c04ProbePath(&e, uint8(adj))
		}
		bs, err := e.Bytes()
		if err != nil {
			fail("encode-error", err.Error())
			return
		}
		var z2 render.Renderer
		var ras2 rec.Raster
		z2.SetRasterizer(&ras2, rect)
		if err := decode.Decode(&z2, bs, decode.WithPalette(pal)); err != nil {
			fail("decode-error", err.Error())
			return
		}
		w.Trace()
		// direct pipeline again, whole log
		var z3 render.Renderer
		var ras3 rec.Raster
		z3.SetRasterizer(&ras3, rect)
		// a palette given as a decode option is sanitised (C14): invalid entries act as opaque black
		spal := pal
		for i := range spal {
			if !ref.Premul(spal[i]) {
				spal[i] = ref.OpaqueBlack
			}
		}
		z3.Reset(ivg.DefaultViewBox, spal)
		for i := range calls {
			calls[i].Apply(&z3)
		}
		for _, adj := range cs.Probes {
			c04ProbePath(&z3, uint8(adj))
		}
		lossy := false
		for i := range calls {
			if calls[i].M == rec.MSetNReg && cmpNReg(calls[i].A[0], calls[i].A[0]) == "" && f32b(calls[i].A[0])&3 != 0 {
				lossy = true // 30-bit quantisation of a register value: paints may differ in the last bits
			}
		}
		if !lossy {
			if d := c17DiffRas(ras2.Calls, ras3.Calls); d != "" {
				fail("decode-pipeline-differs", "program run through Encoder+Decode: "+d)
			}
		}
	}
	if nt && w.WantSample() && len(cs.Letters) == 3 {
		w.Sample(map[string]any{"height": cs.Height, "palette": cs.Pal, "history": rec.CallsString(calls), "probes": cs.Probes})
	}
}

// ---- gradient table ------------------------------------------------------------

// templates: register files
func c04Template(t int, creg *[64]color.RGBA, nreg *[64]float32) {
	for i := 0; i < 64; i++ {
		creg[i] = color.RGBA{uint8(i * 3), uint8(i), 0, 0xff - uint8(i)/2}
		if creg[i].R > creg[i].A {
			creg[i].R = creg[i].A
		}
		nreg[i] = float32(i) / 64
	}
	switch t {
	case 1: // one non-premultiplied colour
		creg[17] = color.RGBA{0x90, 0, 0, 0x80}
	case 2: // offset slightly below 0 and above 1
		nreg[0] = -1e-6
		nreg[40] = 1 + 1e-6
	case 3: // equal and descending neighbours
		nreg[20] = nreg[19]
		nreg[31] = nreg[29]
	case 4: // ascending across the wrap 63 -> 0
		for i := 0; i < 64; i++ {
			nreg[(i+32)&63] = float32(i) / 64
		}
	case 5: // a stop colour that is itself a gradient; NaN offset
		creg[5] = color.RGBA{0x02, 0x4a, 0x8a, 0x00}
		nreg[50] = float32(math.NaN())
	case 6: // all offsets in range and increasing everywhere except at the wrap; transparent colours
		for i := 0; i < 64; i++ {
			creg[i] = color.RGBA{0, 0, 0, 0}
		}
	}
}

func (st *c04State) gradientTable(cbase int) {
	for nbase := 0; nbase < 64; nbase++ {
		for nstops := 0; nstops < 64; nstops++ {
			if st.w.Expired() {
				return
			}
			for t := 0; t < c04Templates; t++ {
				st.gradientOne(cbase, nbase, nstops, t)
			}
		}
	}
}

func (st *c04State) gradientOne(cbase, nbase, nstops, t int) {
	w := st.w
	w.Eval()
	var creg [64]color.RGBA
	var nreg [64]float32
	c04Template(t, &creg, &nreg)
	st.z = render.Renderer{}
	st.ras.Fresh()
	st.rect = image.Rect(0, 0, 16, 16)
	switch (cbase + nbase) % 3 {
	case 1:
		st.rect = image.Rect(3, 7, 19, 23) // the same size elsewhere: the paint is relative to the rectangle
	case 2:
		st.rect = image.Rect(0, 0, 24, 16) // non-uniform scale
	}
	st.z.SetRasterizer(&st.ras, st.rect)
	st.z.Reset(ivg.DefaultViewBox, ivg.DefaultPalette)
	st.vm.Reset(ivg.DefaultPalette)
	// load the register file with incrementing writes starting at 1 (register 0 holds the gradient)
	sel := rec.Call{M: rec.MSetCSel, Adj: 0}
	st.applyBoth(&sel)
	for i := 0; i < 64; i++ {
		c := rec.Call{M: rec.MSetCReg, Incr: true, C: ivg.RGBAColor(creg[i])}
		st.applyBoth(&c)
		n := rec.Call{M: rec.MSetNReg, Incr: true, A: [6]float32{nreg[i]}}
		st.applyBoth(&n)
	}
	// the gradient value goes to a register outside the stop range if possible: use CSEL = cbase-1
	// the two high bits of the red value are reserved: NSTOPS is the low 6 bits whatever they hold
	g := color.RGBA{uint8(nstops) | uint8((cbase+nbase+t)%4)<<6, uint8(cbase) | uint8(t%4)<<6, uint8(nbase) | 0x80 | uint8(t&1)<<6, 0}
	s2 := rec.Call{M: rec.MSetCSel, Adj: uint8(cbase-1) & 63}
	st.applyBoth(&s2)
	gc := rec.Call{M: rec.MSetCReg, C: ivg.RGBAColor(g)}
	st.applyBoth(&gc)
	cs := c04Case{Kind: "gradient", G: [3]int{cbase, nbase, nstops}, Tmpl: t}
	fail := func(key, what string) {
		cs.Desc = fmt.Sprintf("gradient CBASE=%d NBASE=%d NSTOPS=%d template %d", cbase, nbase, nstops, t)
		w.Fail("gradient-table:"+key, cs.Desc+": "+what, cs)
	}
	if !st.probe(0, 16, fail) {
		return
	}
	// a blend works on the raw register bytes, whatever they encode: the gradient value (alpha 0)
	// copied through a blend with transparent at t = 0 resp. t = 255, or halved at t = 128
	{
		gsel := uint8(cbase-1) & 63
		var bc ivg.Color
		switch (cbase + nbase + nstops) % 3 {
		case 0:
			bc = ivg.BlendColor(0x00, 0xc0|gsel, 0x7f)
		case 1:
			bc = ivg.BlendColor(0xff, 0x7f, 0xc0|gsel)
		default:
			bc = ivg.BlendColor(0x80, 0xc0|gsel, 0x7f)
		}
		follow := []rec.Call{
			{M: rec.MSetCSel, Adj: uint8(cbase-2) & 63},
			{M: rec.MSetCReg, C: bc},
		}
		for i := range follow {
			st.applyBoth(&follow[i])
		}
		if !st.probe(0, 16, func(key, what string) { fail("through-blend:"+key, what) }) {
			return
		}
		back := rec.Call{M: rec.MSetCSel, Adj: gsel}
		st.applyBoth(&back)
		// the gradient path once more while the level-of-detail range excludes the raster (not
		// drawn), then, with the range open again, a path filled with a flat colour from another register
		follow = []rec.Call{{M: rec.MSetLOD, A: [6]float32{100, 200}}}
		st.applyBoth(&follow[0])
		if !st.probe(0, 16, func(key, what string) { fail("lod-excluded:"+key, what) }) {
			return
		}
		follow = []rec.Call{
			{M: rec.MSetLOD, A: [6]float32{0, pinfF}},
			{M: rec.MSetCSel, Adj: uint8(cbase-3) & 63},
			{M: rec.MSetCReg, C: rgba(0x10, 0x80, 0x30, 0xff)},
		}
		for i := range follow {
			st.applyBoth(&follow[i])
		}
		if !st.probe(0, 16, func(key, what string) { fail("flat-after-excluded-gradient:"+key, what) }) {
			return
		}
		st.applyBoth(&back)
	}
	// the paint is resolved when the path STARTS: change one register between two paths that
	// use the same gradient value and probe again (no colour-register write in between for the
	// number-register changes)
	if nstops >= 1 {
		k := uint8((cbase*7 + nbase*3 + nstops + t) % nstops)
		follow := []rec.Call{
			{M: rec.MSetNSel, Adj: (uint8(nbase) + k) & 63},
			{M: rec.MSetNReg, A: [6]float32{[]float32{0.5, -0.25, 1, 0.999}[(cbase+t)%4]}}, // a stop offset
		}
		for i := range follow {
			st.applyBoth(&follow[i])
		}
		if !st.probe(0, 16, func(key, what string) { fail("after-nreg-write:"+key, what) }) {
			return
		}
		follow = []rec.Call{
			{M: rec.MSetNSel, Adj: (uint8(nbase) - 6 + uint8(t%6)) & 63},
			{M: rec.MSetNReg, A: [6]float32{2.5}}, // a matrix entry: must show in the next paint's geometry (C15) but never change drawn/not drawn
			{M: rec.MSetNSel, Adj: (uint8(nbase) + k) & 63},
			{M: rec.MSetNReg, A: [6]float32{nreg[(1+int(uint8(nbase)+k)-1)&63]}}, // restore the stop offset
		}
		for i := range follow {
			st.applyBoth(&follow[i])
		}
		if !st.probe(0, 16, func(key, what string) { fail("after-nreg-restore:"+key, what) }) {
			return
		}
		follow = []rec.Call{
			{M: rec.MSetCSel, Adj: (uint8(cbase) + k) & 63},
			{M: rec.MSetCReg, C: domCol[10+(t%2)]}, // a stop colour: non-premultiplied / gradient value
			{M: rec.MSetCSel, Adj: uint8(cbase-1) & 63},
		}
		for i := range follow {
			st.applyBoth(&follow[i])
		}
		if (uint8(cbase)+k)&63 != uint8(cbase-1)&63 { // unless that overwrote the gradient value itself
			if !st.probe(0, 16, func(key, what string) { fail("after-creg-write:"+key, what) }) {
				return
			}
		}
	}
	p := st.vm.StartPath(0, 16)
	h := mc.NewHasher()
	h.Str("g")
	h.Byte(byte(p.Kind))
	h.Str(p.Why)
	h.Byte(byte(nstops))
	w.Outcome(h.Sum(), true)
}
