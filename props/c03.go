package props

import (
	"fmt"
	"strings"

	"github.com/reactivego/ivg/decode"
	"verif/gen"
	"verif/mc"
	"verif/rec"
	"verif/ref"
)

// C03 — the decoder implements exactly the FFV0 grammar: agreement with the
// independent reference parser on every string of engine (B) and (F).

func init() {
	mc.Register(&mc.Check{
		ID:    "C03",
		Level: "exploration",
		Rule: "engine B+F: every string magic+<=3 (thorough <=4: all 2^32 tails) bytes; for each of 2x256 opcodes every operand-width combination, payload class per position, repeat count and truncation point; " +
			"all instruction sequences to depth 3 (thorough 4) over a 30-fragment alphabet; the metadata shape space; every prefix and every single-byte substitution of all 971 corpus files (31M strings). " +
			"Each string is decoded by decode.Decode into a recorder and by the reference parser; accept/reject and the call list must agree bit for bit. " +
			"distinct = hash of (accepted, sequence of call kinds/ADJ/flags); non-trivial = accepted and delivering at least one drawing operation",
		Assumptions: []string{"reference parser /verif/ref written from spec/iconvg-spec-v0.md", "error kinds are not compared (the spec does not define them)"},
		Units:       func(tier string) int { return len(c03Units(tier)) },
		Run: func(w *mc.W, u int) {
			unit := c03Units(w.Tier)[u]
			st := &c03State{}
			hist := &byteHistory
			unit.Each(func(b []byte) bool {
				b = hist.begin(w, b, unit.Name)
				c03Check(w, st, b, unit.Name)
				hist.end(histOK)
				return !w.Expired()
			})
		},
		Replay: bytesReplay(func() func(w *mc.W, b []byte, unit string) {
			st := &c03State{}
			return func(w *mc.W, b []byte, unit string) { c03Check(w, st, b, unit) }
		}),
		Post: postDistinct(100),
	})
}

// c03Units: the quick tier already includes every single-byte substitution of the
// whole corpus (cheap for this check: one decode + one reference parse per input).
var c03UnitsCache = map[string][]gen.Unit{}

func c03Units(tier string) []gen.Unit {
	if u, ok := c03UnitsCache[tier]; ok {
		return u
	}
	us := genUnits(tier)
	if tier == "thorough" {
		us = append(us[:len(us):len(us)], gen.TinyUnits(4)...) // all 2^32 four-byte tails after the magic
	}
	if tier != "thorough" {
		seen := map[string]bool{}
		for _, u := range us {
			seen[u.Name] = true
		}
		for _, u := range genUnits("thorough") {
			if (strings.HasPrefix(u.Name, "corpus/subst/") || strings.HasPrefix(u.Name, "tiny/3/")) && !seen[u.Name] {
				us = append(us[:len(us):len(us)], u)
			}
		}
	}
	c03UnitsCache[tier] = us
	return us
}

type c03State struct {
	rd, rdc rec.Dest
	ps      ref.Parser
}

// c03Canary: a small graphic with both metadata chunks, register traffic and a path with an arc;
// c03CanaryCalls: what the specification says it is.
var c03Canary = append(append(append([]byte{}, gen.Magic...), 0x04, 0x0a, 0x00, 0x50, 0x50, 0xb0, 0xb0, 0x08, 0x02, 0x01, 0x7c, 0x30), c11Other[5:]...)
var c03CanaryCalls = func() []rec.Call {
	var ps ref.Parser
	p := ps.Parse(c03Canary)
	if !p.OK || len(p.Calls) < 5 {
		panic("harness: the canary graphic of C03 is not well formed: " + p.Reason)
	}
	return append([]rec.Call(nil), p.Calls...)
}()

func c03Check(w *mc.W, st *c03State, b []byte, unit string) {
	w.Eval()
	w.Trace()
	st.rd.ResetLog()
	err, pnc, stack := safeDecode(&st.rd, b)
	if pnc != nil {
		w.Fail("panic:"+panicKey(stack), fmt.Sprintf("Decode panicked on %s: %v", hexShort(b), pnc), mkBytesCase(b, unit))
		return
	}
	p := st.ps.Parse(b)
	setHist(p.MetaOK, p.HasVB, p.HasPal, p.Reason)
	implOK := err == nil
	if implOK != p.OK {
		if implOK {
			w.Fail("accept-mismatch:impl-accepts:"+p.Reason, fmt.Sprintf("Decode accepts %s but the specification rejects it (%s)", hexShort(b), p.Reason), mkBytesCase(b, unit))
		} else {
			w.Fail("accept-mismatch:impl-rejects:"+err.Error(), fmt.Sprintf("Decode rejects %s (%v) but the specification accepts it; reference calls: %s", hexShort(b), err, rec.CallsString(p.Calls)), mkBytesCase(b, unit))
		}
	} else if implOK {
		if i := firstDiff(st.rd.Calls, p.Calls); i >= 0 {
			w.Fail("calls-differ:"+methodAt(p.Calls, i)+"/"+methodAt(st.rd.Calls, i),
				fmt.Sprintf("input %s: call %d is %s, specification says %s", hexShort(b), i, callAt(st.rd.Calls, i), callAt(p.Calls, i)), mkBytesCase(b, unit))
		}
	}
	// validation only (no destination): the same strings are accepted
	{
		var nerr error
		if pnc, _ := guard(func() { nerr = decode.Decode(nil, b) }); pnc != nil {
			w.Fail("panic:Decode(nil)", fmt.Sprintf("Decode(nil, %s) panicked: %v", hexShort(b), pnc), mkBytesCase(b, unit))
		} else if (nerr == nil) != p.OK {
			w.Fail(fmt.Sprintf("accept-mismatch:nil-destination-accepts=%v", nerr == nil), fmt.Sprintf("Decode(nil, %s) err=%v, the specification says well formed: %v (%s)", hexShort(b), nerr, p.OK, p.Reason), mkBytesCase(b, unit))
		}
	}
	// the metadata-only entry point reads the same grammar (metadata units): it accepts exactly
	// the strings whose magic and metadata section are well formed
	if strings.HasPrefix(unit, "meta/") {
		var verr error
		if pnc, _ := guard(func() { _, verr = decode.DecodeViewBox(b) }); pnc != nil {
			w.Fail("panic:DecodeViewBox", fmt.Sprintf("DecodeViewBox panicked on %s: %v", hexShort(b), pnc), mkBytesCase(b, unit))
		} else if (verr == nil) != p.MetaOK {
			w.Fail(fmt.Sprintf("accept-mismatch:DecodeViewBox-accepts=%v", verr == nil), fmt.Sprintf("DecodeViewBox(%s) err=%v, the metadata section is well formed: %v (%s)", hexShort(b), verr, p.MetaOK, p.Reason), mkBytesCase(b, unit))
		}
	}
	// nothing is carried from one input to the next: right after every other input (chosen by its
	// content; see C13) a fixed small graphic decodes to exactly what the specification says
	if len(b) > 0 && (len(b)+int(b[len(b)-1]))%2 == 1 {
		st.rdc.ResetLog()
		cerr, cpnc, _ := safeDecode(&st.rdc, c03Canary)
		if i := firstDiff(st.rdc.Calls, c03CanaryCalls); cpnc != nil || cerr != nil || i >= 0 {
			w.Fail("carried-over-from-previous-input", fmt.Sprintf("a fixed graphic decoded right after input %s: err=%v panic=%v, call %d is %s, specification says %s", hexShort(b), cerr, cpnc, i, callAt(st.rdc.Calls, i), callAt(c03CanaryCalls, i)), mkBytesCase(b, unit))
		}
	}
	h := mc.NewHasher()
	h.Bool(implOK)
	nontrivial := false
	if implOK {
		rec.HashCalls(&h, st.rd.Calls, false)
		for i := range st.rd.Calls {
			if st.rd.Calls[i].M.IsDrawing() {
				nontrivial = true
				break
			}
		}
	} else {
		h.Str(err.Error())
		h.Byte(byte(len(st.rd.Calls)))
	}
	w.Outcome(h.Sum(), nontrivial)
	if nontrivial && w.WantSample() && len(b) < 40 {
		w.Sample(map[string]any{"unit": unit, "hex": hexShort(b), "calls": rec.CallsString(st.rd.Calls)})
	}
}
