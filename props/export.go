package props

// Unexported codecs, reachable only when the harness is built with the
// generated overlay (-tags verif); nil otherwise (the checks then use the
// public routes only and say so in the evidence).
type privEncoders struct {
	Natural                       func([]byte, uint32) []byte
	Real, Coord, ZeroToOne, Angle func([]byte, float32) []byte
}
type privDecoders struct {
	Natural                func([]byte) (uint32, int)
	Real, Coord, ZeroToOne func([]byte) (float32, int)
}

var privEnc *privEncoders
var privDec *privDecoders
