package props

import (
	"bytes"
	"encoding/json"
	"fmt"
	"image/color"
	"strings"

	"github.com/reactivego/ivg"
	"github.com/reactivego/ivg/decode"
	"github.com/reactivego/ivg/encode"
	"verif/mc"
	"verif/rec"
)

// C01 — encode -> decode reproduces the program, and back again.

// ---- letters of the structural exploration ----------------------------------

type c01Letter struct {
	call    rec.Call
	drawing bool // allowed in drawing mode (else styling mode)
	read    byte
}

func c01Letters() []c01Letter {
	var ls []c01Letter
	st := func(c rec.Call) { ls = append(ls, c01Letter{call: c}) }
	dr := func(c rec.Call) { ls = append(ls, c01Letter{call: c, drawing: true}) }
	st(rec.Call{M: rec.MSetCSel, Adj: 0})
	st(rec.Call{M: rec.MSetCSel, Adj: 63})
	st(rec.Call{M: rec.MSetNSel, Adj: 1})
	for i, c := range []ivg.Color{domCol[0], domCol[6], domCol[8], domCol[9], domCol[11], domCol[15], domCol[18], domCol[21]} {
		st(rec.Call{M: rec.MSetCReg, Adj: []uint8{0, 3, 6, 0, 1, 2, 4, 5}[i], C: c})
	}
	st(rec.Call{M: rec.MSetCReg, Incr: true, C: domCol[9]})
	st(rec.Call{M: rec.MSetCReg, Incr: true, C: domCol[21]})
	for i, f := range []float32{5, 7.515625, 0.25, 11.05} {
		st(rec.Call{M: rec.MSetNReg, Adj: []uint8{0, 3, 6, 1}[i], A: [6]float32{f}})
	}
	st(rec.Call{M: rec.MSetNReg, Incr: true, A: [6]float32{-3}})
	st(rec.Call{M: rec.MSetNReg, Incr: true, A: [6]float32{0.9}})
	st(rec.Call{M: rec.MSetLOD, A: [6]float32{8, 1e10}})
	ls = append(ls, c01Letter{read: 'c'}, c01Letter{read: 'n'}, c01Letter{read: 'H'}, c01Letter{read: 'h'})
	st(rec.Call{M: rec.MStartPath, Adj: 0, A: [6]float32{1, 2}})
	st(rec.Call{M: rec.MStartPath, Adj: 3, A: [6]float32{-3.5, 4.25}})
	st(rec.Call{M: rec.MStartPath, Adj: 6, A: [6]float32{100.5, -200}})
	k := float32(0)
	args := func(n int) [6]float32 {
		var a [6]float32
		for i := 0; i < n; i++ {
			k++
			a[i] = k + k/64
			if int(k)%5 == 0 {
				a[i] += 0.003 // not a multiple of 1/64: the resolution in force shows
			}
			if int(k)%3 == 0 {
				a[i] = -a[i]
			}
		}
		return a
	}
	for m := rec.MAbsH; m <= rec.MRelC; m++ {
		dr(rec.Call{M: m, A: args(rec.NArgs[m])})
	}
	dr(rec.Call{M: rec.MAbsA, LA: true, SW: false, A: [6]float32{5, 6.5, 0.125, 7, 8}})
	dr(rec.Call{M: rec.MRelA, LA: false, SW: true, A: [6]float32{9, 10, 0.3, -11, 12.25}})
	dr(rec.Call{M: rec.MAbsMove, A: args(2)})
	dr(rec.Call{M: rec.MRelMove, A: args(2)})
	dr(rec.Call{M: rec.MEndPath})
	return ls
}

var c01L = c01Letters()

// markers carried in the Adj field of a read-back pseudo call: assign the Encoder's
// HighResolutionCoordinates flag (it is latched when the next path starts)
const (
	c01FlagOn  = 0xfe
	c01FlagOff = 0xff
)

type c01Meta struct {
	vb  ivg.ViewBox
	pal [64]color.RGBA
}

var c01Metas = func() []c01Meta {
	p := ivg.DefaultPalette
	p[0] = color.RGBA{0x30, 0x66, 0x07, 0x80}
	p[1] = color.RGBA{0x40, 0x40, 0x40, 0x40}
	p[5] = color.RGBA{0xff, 0xff, 0xff, 0xff}
	// a palette whose chunk needs a two-byte length: 64 entries that need four bytes each
	long := ivg.DefaultPalette
	for i := range long {
		long[i] = color.RGBA{uint8(i), uint8(2 * i), uint8(i / 2), 0x80 + uint8(i)}
	}
	return []c01Meta{{ivg.DefaultViewBox, ivg.DefaultPalette}, {domVB[2], ivg.DefaultPalette}, {ivg.DefaultViewBox, p}, {domVB[3], p}, {domVB[2], long}}
}()

type c01Case struct {
	Kind  string     `json:"kind"` // "forward" or "converse"
	Hires bool       `json:"hires"`
	Meta  int        `json:"meta"`
	Calls []c01JCall `json:"calls,omitempty"`
	Hex   string     `json:"hex,omitempty"`
	Desc  string     `json:"desc,omitempty"`
}

// c01JCall is a JSON-able rec.Call (float bits).
type c01JCall struct {
	M    uint8     `json:"m"`
	Adj  uint8     `json:"adj,omitempty"`
	Incr bool      `json:"incr,omitempty"`
	LA   bool      `json:"la,omitempty"`
	SW   bool      `json:"sw,omitempty"`
	CK   uint8     `json:"ck,omitempty"`
	CD   [4]uint8  `json:"cd,omitempty"`
	A    [6]uint32 `json:"a,omitempty"`
	Read byte      `json:"read,omitempty"`
}

func toJ(c *rec.Call) c01JCall {
	k, d := rec.ColorParts(c.C)
	j := c01JCall{M: uint8(c.M), Adj: c.Adj, Incr: c.Incr, LA: c.LA, SW: c.SW, CK: k, CD: [4]uint8{d.R, d.G, d.B, d.A}}
	for i := range c.A {
		j.A[i] = f32b(c.A[i])
	}
	return j
}
func fromJ(j c01JCall) rec.Call {
	c := rec.Call{M: rec.Method(j.M), Adj: j.Adj, Incr: j.Incr, LA: j.LA, SW: j.SW, C: rec.MakeColor(j.CK, color.RGBA{j.CD[0], j.CD[1], j.CD[2], j.CD[3]})}
	for i := range c.A {
		c.A[i] = b32f(j.A[i])
	}
	return c
}

func c01StructDepth(tier string) int {
	if tier == "thorough" {
		return 5
	}
	return 4
}

var c01RunLens = []int{1, 2, 15, 16, 17, 31, 32, 33, 47, 48, 49, 64, 65, 255, 256, 257, 513}

func c01Units(tier string) (structU, runU, valU, convU int) {
	return len(c01L) * len(c01L), 1, 4, len(genUnits(tier))
}

func init() {
	mc.Register(&mc.Check{
		ID:    "C01",
		Level: "model_checking",
		Rule: "forward: (S) every protocol-respecting history of <=4 (thorough <=5) calls over a 49-letter alphabet (all 28 mutating Destination methods, ADJ 0..6 and increment forms, 8 colour kinds, 4 number forms, selector read-backs), closed with the shortest suffix, x {low,high} resolution x 5 metadata, encoded by a real Encoder and decoded by the real decoder; " +
			"run lengths {1,2,15,16,17,31,32,33,47,48,49,64,65,255,256,257,513} of each of the 20 argument-carrying drawing verbs x 4 run terminators; (P) every value of an 87-element float32 boundary list in every argument position of every method, all pairs for 2-argument methods, all colour classes, viewBox pairs. " +
			"converse: every stream of engines B+F that the decoder accepts is transcoded through an Encoder at both resolutions until the byte string repeats (<=8 rounds), each round compared with the original decode. " +
			"Comparator: operations, order, ADJ, increment, arc flags, colours bit-exact; numbers: nearest 1/64 (low-res in [-128,128)), unchanged if exactly representable in a short form or in the 4-byte form, else <=4 ulp, sign/infinity kept, NaN stays non-finite, angles modulo one turn. " +
			"states = histories executed in the structural exploration, transitions = calls executed; non-trivial = round trip containing at least one drawing operation",
		Assumptions: []string{"tolerances as stated in C01/C08", "streams that end inside a path are decoder-accepted and therefore in scope of the converse"},
		Units: func(tier string) int {
			a, b, c, d := c01Units(tier)
			return a + b + c + d
		},
		Run: func(w *mc.W, u int) {
			a, b, c, _ := c01Units(w.Tier)
			st := &c01State{w: w}
			switch {
			case u < a:
				st.structural(u/len(c01L), u%len(c01L))
			case u < a+b:
				st.runLengths()
			case u < a+b+c:
				st.values(u - a - b)
			default:
				unit := genUnits(w.Tier)[u-a-b-c]
				unit.Each(func(bs []byte) bool {
					st.converse(bs, unit.Name)
					return !w.Expired()
				})
			}
		},
		Replay: func(w *mc.W, data json.RawMessage) error {
			var cs c01Case
			if err := unmarshalCase(data, &cs); err != nil {
				return err
			}
			st := &c01State{w: w}
			if cs.Kind == "converse" {
				st.converse(bytesCase{Hex: cs.Hex}.bytes(), "replay")
				return nil
			}
			var calls []rec.Call
			for _, j := range cs.Calls {
				c := fromJ(j)
				if j.Read != 0 {
					c = rec.Call{M: rec.MCSel}
					switch j.Read {
					case 'n':
						c.M = rec.MNSel
					case 'H':
						c.Adj = c01FlagOn
					case 'h':
						c.Adj = c01FlagOff
					}
				}
				calls = append(calls, c)
			}
			st.forward(calls, cs.Hires, cs.Meta, "replay")
			return nil
		},
		Post: func(tier string, m *mc.Result) string {
			if m.Counters["converse_accepted"] == 0 || m.Counters["forward"] == 0 {
				return "converse or forward part did not run"
			}
			return postDistinct(100)(tier, m)
		},
	})
}

type c01State struct {
	w   *mc.W
	rd  rec.Dest
	rd2 rec.Dest
	enc encode.Encoder
}

func (st *c01State) mkCase(calls []rec.Call, hires bool, meta int, desc string) c01Case {
	cs := c01Case{Kind: "forward", Hires: hires, Meta: meta, Desc: desc}
	for i := range calls {
		j := toJ(&calls[i])
		if calls[i].M == rec.MCSel && calls[i].Adj == c01FlagOn {
			j.Read = 'H'
		} else if calls[i].M == rec.MCSel && calls[i].Adj == c01FlagOff {
			j.Read = 'h'
		} else if calls[i].M == rec.MCSel {
			j.Read = 'c'
		} else if calls[i].M == rec.MNSel {
			j.Read = 'n'
		}
		cs.Calls = append(cs.Calls, j)
	}
	return cs
}

// forward encodes calls (after Reset with metadata #meta) and compares the decode.
func (st *c01State) forward(calls []rec.Call, hires bool, meta int, desc string) {
	w := st.w
	w.Eval()
	w.Trace()
	w.Count("forward", 1)
	m := &c01Metas[meta]
	e := &st.enc
	// Three kinds of object, alternating from case to case: the Encoder of the previous case,
	// abandoned inside a path with a run of operations pending (as after a Decode into it that
	// failed mid-path) and then Reset; a fresh one; a zero-value one that is never Reset.
	var mid rec.Call
	if len(calls) > 0 {
		mid = calls[len(calls)/2]
	}
	switch variant := (len(calls) + meta + int(mid.M) + int(f32b(mid.A[0])>>3) + int(f32b(mid.A[1])>>5)) % 3; {
	case variant == 1 && meta == 0:
		// default metadata: a zero-value Encoder that is never Reset and whose resolution flag
		// is set before its first call
		st.enc = encode.Encoder{}
		e.HighResolutionCoordinates = hires
	case variant == 1 || variant == 2 && meta%2 == 1:
		// a fresh Encoder, Reset once
		st.enc = encode.Encoder{}
		e.Reset(m.vb, m.pal)
		e.HighResolutionCoordinates = hires
	default:
		// the Encoder of the previous case, abandoned inside a path with a run pending
		e.StartPath(0, 1, 1)
		e.RelHLineTo(3)
		e.RelHLineTo(4)
		e.Reset(m.vb, m.pal)
		e.HighResolutionCoordinates = hires
	}
	want := make([]rec.Call, 0, len(calls)+1)
	pal := m.pal
	want = append(want, rec.Call{M: rec.MReset, VB: m.vb, Pal: &pal})
	// the resolution of a path is the flag's value when the path starts
	flag, latched := hires, hires
	hiresOf := make([]bool, 1, len(calls)+1)
	for i := range calls {
		if calls[i].M == rec.MCSel && calls[i].Adj >= c01FlagOn {
			flag = calls[i].Adj == c01FlagOn
			e.HighResolutionCoordinates = flag
			continue
		}
		calls[i].Apply(e)
		if calls[i].M == rec.MStartPath {
			latched = flag
		}
		if calls[i].M != rec.MCSel && calls[i].M != rec.MNSel {
			want = append(want, calls[i])
			hiresOf = append(hiresOf, latched)
		}
	}
	w.Transition(int64(len(calls)))
	b, err := e.Bytes()
	if err != nil {
		w.Fail("forward:bytes-error", fmt.Sprintf("%s: well-formed history [%s] makes Bytes() fail: %v", desc, rec.CallsString(calls), err), st.mkCase(calls, hires, meta, desc))
		return
	}
	st.rd.ResetLog()
	if derr := decode.Decode(&st.rd, b); derr != nil {
		w.Fail("forward:decode-error", fmt.Sprintf("%s: history [%s] encodes to %x which Decode rejects: %v", desc, rec.CallsString(calls), b, derr), st.mkCase(calls, hires, meta, desc))
		return
	}
	cmpAll := func() (int, string) {
		for k := 0; k < len(want) && k < len(st.rd.Calls); k++ {
			if why := cmpCall(&want[k], &st.rd.Calls[k], hiresOf[k]); why != "" {
				return k, why
			}
		}
		if len(want) != len(st.rd.Calls) {
			return min(len(want), len(st.rd.Calls)), fmt.Sprintf("%d operations became %d", len(want), len(st.rd.Calls))
		}
		return -1, ""
	}
	if i, why := cmpAll(); i >= 0 {
		key := "forward:" + methodAt(want, i) + ":" + strings.SplitN(why, ":", 2)[0]
		w.Fail(key, fmt.Sprintf("%s (hires=%v): call %d %s comes back as %s: %s (stream %s)", desc, hires, i, callAt(want, i), callAt(st.rd.Calls, i), why, hexShort(b)), st.mkCase(calls, hires, meta, desc))
		return
	}
	h := mc.NewHasher()
	h.Bool(hires)
	h.Byte(byte(meta))
	rec.HashCalls(&h, st.rd.Calls, false)
	nt := false
	for i := range want {
		if want[i].M.IsDrawing() {
			nt = true
			break
		}
	}
	w.Outcome(h.Sum(), nt)
	if nt && w.WantSample() && len(calls) > 3 && len(calls) < 8 {
		w.Sample(map[string]any{"kind": "forward", "hires": hires, "history": rec.CallsString(calls), "bytes": hexShort(b)})
	}
}

// structural: all protocol-respecting histories starting with letters l0, l1.
func (st *c01State) structural(l0, l1 int) {
	w := st.w
	D := c01StructDepth(w.Tier)
	hist := make([]rec.Call, 0, D+1)
	var rc func(depth int, drawing bool)
	try := func(l int, depth int, drawing bool) {
		L := &c01L[l]
		if L.read == 0 && L.drawing != drawing {
			return
		}
		// (read-backs and assignments of the resolution flag are legal in either mode)
		c := L.call
		switch L.read {
		case 'c':
			c = rec.Call{M: rec.MCSel}
		case 'n':
			c = rec.Call{M: rec.MNSel}
		case 'H':
			c = rec.Call{M: rec.MCSel, Adj: c01FlagOn}
		case 'h':
			c = rec.Call{M: rec.MCSel, Adj: c01FlagOff}
		}
		hist = append(hist, c)
		nd := drawing
		if c.M == rec.MStartPath {
			nd = true
		} else if c.M == rec.MEndPath {
			nd = false
		}
		rc(depth+1, nd)
		hist = hist[:len(hist)-1]
	}
	rc = func(depth int, drawing bool) {
		if w.Expired() {
			return
		}
		if depth >= 2 || (depth == 1 && l1 == 0) {
			// judge this history (closed with the shortest suffix)
			full := hist
			if drawing {
				full = append(append([]rec.Call(nil), hist...), rec.Call{M: rec.MEndPath})
			}
			w.State(1)
			for meta := range c01Metas {
				for _, hi := range []bool{false, true} {
					if depth >= 3 && meta != 0 && !(meta == 3 && hi) && depth == D {
						// deepest level: metadata variants only in one combination (the metadata
						// section is a fixed prefix, independent of the instructions)
						continue
					}
					st.forward(full, hi, meta, "structural")
				}
			}
		}
		if depth == D {
			return
		}
		if depth == 0 {
			try(l0, depth, drawing)
			return
		}
		if depth == 1 {
			try(l1, depth, drawing)
			return
		}
		for l := range c01L {
			try(l, depth, drawing)
		}
	}
	rc(0, false)
	w.Depth(D)
}

func (st *c01State) runLengths() {
	enders := []rec.Call{{M: rec.MEndPath}, {M: rec.MAbsMove, A: [6]float32{1, 1}}, {M: rec.MRelMove, A: [6]float32{2, 2}}, {M: rec.MAbsL, A: [6]float32{3, 3}}, {M: rec.MRelQ, A: [6]float32{1, 2, 3, 4}}}
	for m := rec.MAbsMove; m <= rec.MRelA; m++ {
		for _, r := range c01RunLens {
			for ei, end := range enders {
				if end.M == m {
					continue
				}
				calls := []rec.Call{{M: rec.MStartPath, A: [6]float32{0, 0}}}
				k := float32(0)
				for i := 0; i < r; i++ {
					c := rec.Call{M: m, LA: i%2 == 1, SW: i%3 == 1}
					if m != rec.MAbsA && m != rec.MRelA {
						c.LA, c.SW = false, false
					}
					for j := 0; j < rec.NArgs[m]; j++ {
						k++
						c.A[j] = k / 64
						if (m == rec.MAbsA || m == rec.MRelA) && j == 2 {
							c.A[j] = float32(int(k)%120) / 120
						}
					}
					calls = append(calls, c)
				}
				calls = append(calls, end)
				if end.M != rec.MEndPath {
					// a second run of the same verb after the terminator, then close
					calls = append(calls, rec.Call{M: m, A: [6]float32{9, 8, 0.5, 6, 5, 4}}, rec.Call{M: rec.MEndPath})
				}
				for _, hi := range []bool{false, true} {
					st.forward(calls, hi, ei%len(c01Metas), fmt.Sprintf("run of %d %s", r, m))
				}
			}
		}
	}
}

func (st *c01State) values(part int) {
	w := st.w
	wrap := func(c rec.Call) []rec.Call {
		if c.M.IsDrawing() {
			return []rec.Call{{M: rec.MStartPath, A: [6]float32{1, 1}}, c, {M: rec.MEndPath}}
		}
		if c.M == rec.MStartPath {
			return []rec.Call{c, {M: rec.MEndPath}}
		}
		return []rec.Call{c}
	}
	switch part {
	case 0: // every value in every argument position
		for m := rec.MSetNReg; m <= rec.MRelA; m++ {
			n := rec.NArgs[m]
			for pos := 0; pos < n; pos++ {
				for _, f := range domF {
					c := rec.Call{M: m, A: [6]float32{1.5, 2.5, 0.25, 4.5, 5.5, 6.5}}
					c.A[pos] = f
					for _, hi := range []bool{false, true} {
						st.forward(wrap(c), hi, 0, "values")
					}
				}
			}
		}
	case 1: // all pairs for 2-argument methods
		for _, m := range []rec.Method{rec.MSetLOD, rec.MStartPath, rec.MAbsMove, rec.MRelMove, rec.MAbsL, rec.MRelL, rec.MAbsT, rec.MRelT} {
			for _, f := range domF {
				for _, g := range domF {
					if w.Expired() {
						return
					}
					c := rec.Call{M: m, A: [6]float32{f, g}}
					for _, hi := range []bool{false, true} {
						st.forward(wrap(c), hi, 0, "value pairs")
					}
				}
			}
		}
	case 2: // colours, ADJ, increments
		cols := append(append([]ivg.Color(nil), domCol...),
			// beside the cube levels 00 40 80 c0 ff: the levels just below them
			rgba(0x3f, 0x40, 0x7f, 0xff), rgba(0xbf, 0xbf, 0xbf, 0xff), rgba(0x00, 0x7f, 0xff, 0xff), rgba(0x41, 0x80, 0xc1, 0xff),
			// nibble levels and their neighbours
			rgba(0x11, 0x22, 0x33, 0x44), rgba(0x10, 0x22, 0x33, 0x44), rgba(0x12, 0x22, 0x33, 0x44),
			// blends with equal operands, and naming the register they are stored in
			ivg.BlendColor(0x40, 0x85, 0x85), ivg.BlendColor(0x00, 0x7c, 0x7c), ivg.BlendColor(0xff, 0xc3, 0xc3), ivg.BlendColor(0x80, 0xc0, 0x7f))
		for _, col := range cols {
			for adj := uint8(0); adj <= 6; adj++ {
				st.forward([]rec.Call{{M: rec.MSetCReg, Adj: adj, C: col}}, false, 0, "colours")
			}
			st.forward([]rec.Call{{M: rec.MSetCReg, Incr: true, C: col}}, true, 2, "colours")
		}
		for s := 0; s < 256; s++ {
			// selector arguments outside 0..63 are reduced modulo 64 by every Destination
			st.forward([]rec.Call{{M: rec.MSetCSel, Adj: uint8(s) & 63}, {M: rec.MSetNSel, Adj: uint8(s) & 63}}, false, 0, "selectors")
		}
		for adj := uint8(0); adj <= 6; adj++ {
			st.forward([]rec.Call{{M: rec.MSetNReg, Adj: adj, A: [6]float32{0.3}}, {M: rec.MStartPath, Adj: adj, A: [6]float32{1, 2}}, {M: rec.MEndPath}}, true, 1, "adj")
		}
	case 3: // viewBoxes (all ordered finite pairs) and palettes
		e := &st.enc
		for _, a := range domF {
			for _, b := range domF {
				if !isFinite32(a) || !isFinite32(b) || a > b {
					continue
				}
				for _, vb := range []ivg.ViewBox{{MinX: a, MinY: -1, MaxX: b, MaxY: 1}, {MinX: -1, MinY: a, MaxX: 1, MaxY: b}, {MinX: a, MinY: a, MaxX: b, MaxY: b}} {
					w.Eval()
					e.Reset(vb, ivg.DefaultPalette)
					bs, err := e.Bytes()
					st.rd.ResetLog()
					var derr error
					if err == nil {
						derr = decode.Decode(&st.rd, bs)
					}
					cs := c01Case{Kind: "viewbox", Desc: fmt.Sprintf("viewBox %v", vb)}
					if err != nil || derr != nil || len(st.rd.Calls) != 1 {
						w.Fail("viewbox:rejected", fmt.Sprintf("valid viewBox %v: Bytes err=%v Decode err=%v (stream %x)", vb, err, derr, bs), cs)
						continue
					}
					want := rec.Call{M: rec.MReset, VB: vb}
					got := st.rd.Calls[0]
					got.Pal = nil
					if s := cmpCall(&want, &got, true); s != "" {
						w.Fail("viewbox:changed", fmt.Sprintf("viewBox %v comes back as %v: %s", vb, got.VB, s), cs)
					}
				}
			}
		}
	}
}

// converse: transcoding of a decoder-accepted stream.
func (st *c01State) converse(b []byte, unit string) {
	w := st.w
	st.rd.ResetLog()
	if err, pnc, _ := safeDecode(&st.rd, b); err != nil || pnc != nil {
		return
	}
	w.Eval()
	w.Count("converse_accepted", 1)
	orig := append([]rec.Call(nil), st.rd.Calls...)
	if orig[0].Pal != nil {
		p := *orig[0].Pal
		orig[0].Pal = &p
	}
	cs := c01Case{Kind: "converse", Hex: fmt.Sprintf("%x", b), Desc: unit}
	open := false
	for i := range orig {
		if orig[i].M == rec.MStartPath {
			open = true
		} else if orig[i].M == rec.MEndPath {
			open = false
		}
	}
	for _, hi := range []bool{false, true} {
		cur := b
		var prev [][]byte
		for round := 1; round <= 8; round++ {
			e := &encode.Encoder{}
			e.HighResolutionCoordinates = hi
			// Reset (delivered by Decode) clears the flag, so set it through a wrapper after Reset
			dst := &hiresAfterReset{Encoder: e, hi: hi}
			w.Trace()
			if err := decode.Decode(dst, cur); err != nil {
				w.Fail("converse:redecode-error", fmt.Sprintf("stream %s (round %d, hires=%v): transcoded stream %s is rejected: %v", hexShort(b), round, hi, hexShort(cur), err), cs)
				return
			}
			out, err := e.Bytes()
			if err != nil {
				w.Fail("converse:bytes-error", fmt.Sprintf("accepted stream %s fed to an Encoder (round %d, hires=%v): Bytes() fails: %v", hexShort(b), round, hi, err), cs)
				return
			}
			st.rd2.ResetLog()
			if derr := decode.Decode(&st.rd2, out); derr != nil {
				w.Fail("converse:decode-error", fmt.Sprintf("stream %s transcoded (round %d, hires=%v) to %s which Decode rejects: %v", hexShort(b), round, hi, hexShort(out), derr), cs)
				return
			}
			if i, why := cmpCalls(orig, st.rd2.Calls, hi); i >= 0 {
				key := "converse:" + methodAt(orig, i) + ":" + strings.SplitN(why, ":", 2)[0]
				if open && i >= len(st.rd2.Calls) {
					key = "converse:open-path-tail-lost"
				}
				w.Fail(key, fmt.Sprintf("stream %s transcoded (round %d, hires=%v): call %d %s comes back as %s: %s", hexShort(b), round, hi, i, callAt(orig, i), callAt(st.rd2.Calls, i), why), cs)
				return
			}
			if bytes.Equal(out, cur) {
				break // fixpoint: all further rounds are identical
			}
			cyc := false
			for _, p := range prev {
				if bytes.Equal(p, out) {
					cyc = true
				}
			}
			if cyc {
				break
			}
			prev = append(prev, append([]byte(nil), out...))
			cur = prev[len(prev)-1]
			if round == 8 {
				w.Count("converse_no_fixpoint_in_8_rounds", 1)
			}
		}
	}
	h := mc.NewHasher()
	h.Str("converse")
	rec.HashCalls(&h, orig, false)
	nt := false
	for i := range orig {
		if orig[i].M.IsDrawing() {
			nt = true
			break
		}
	}
	w.Outcome(h.Sum(), nt)
}

// hiresAfterReset re-arms HighResolutionCoordinates after the Reset that
// Decode delivers (Reset documents that it clears the flag).
type hiresAfterReset struct {
	*encode.Encoder
	hi bool
}

func (h *hiresAfterReset) Reset(vb ivg.ViewBox, pal [64]color.RGBA) {
	h.Encoder.Reset(vb, pal)
	h.Encoder.HighResolutionCoordinates = h.hi
}
