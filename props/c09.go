package props

import (
	"encoding/json"
	"fmt"
	"image"
	"image/color"

	"github.com/reactivego/ivg"
	"github.com/reactivego/ivg/decode"
	"github.com/reactivego/ivg/encode"
	"github.com/reactivego/ivg/render"
	"verif/gen"
	"verif/mc"
	"verif/rec"
	"verif/ref"
)

// C09 — colours exact; forms and blending follow the tables.

var c09Fill = []uint8{0x00, 0x40, 0x80, 0xc0, 0xff, 0x11, 0x12}
var c09Pairs = [][2]int{{0, 1}, {0, 2}, {0, 3}, {1, 2}, {1, 3}, {2, 3}}

type c09Plan struct {
	direct, indirect, decoder, resolve, palettes int
}

func c09plan(tier string) c09Plan {
	if tier == "thorough" {
		return c09Plan{direct: 4096, indirect: 256, decoder: 1 + 256 + 4096, resolve: 256, palettes: len(c09PosSets()) + 2}
	}
	return c09Plan{direct: len(c09Pairs)*len(c09Fill)*len(c09Fill) + 256, indirect: 256, decoder: 1, resolve: 256, palettes: len(c09PosSets()) + 2}
}

func init() {
	mc.Register(&mc.Check{
		ID:    "C09",
		Level: "exploration",
		Rule: "engine P: (i) direct RGBA colours through SetCReg -> Bytes -> Decode (quick: every channel pair swept 256x256 with the other two channels at each of 7 fill values = 19.3M colours crossing every 1/2/3/4-byte form boundary, plus every red x green in multiples of 0x11 x every blue x every alpha = 268M; thorough: all 2^32), all 256 palette-index and register-reference arguments, all 2^24 blends; " +
			"(ii) decoder tables: all 256 one-byte, 65536 two-byte, channel sweeps (thorough: all 2^24 three-byte and 2^32 four-byte) patterns against the reference tables; (iii) Color.Resolve for all 2^24 (t,c0,c1) under 4 palette/register contexts and through the Renderer's paint for a subset; " +
			"(iv) suggested palettes through Encoder.Reset -> Decode, next to the default and next to a custom viewBox: every palette with <=3 explicit entries at positions {0,1,2,31,62,63} over 20 valid premultiplied colours, uniform palettes of every length, all two-byte-able colours at position 0. " +
			"distinct = hash of (route, form length or colour kind, validity class); non-trivial = colour needs a 2-, 3- or 4-byte form, or blend with 0<t<255",
		Assumptions: []string{"reference colour tables /verif/ref written from the specification"},
		Units: func(tier string) int {
			p := c09plan(tier)
			return p.direct + p.indirect + p.decoder + p.resolve + p.palettes
		},
		Run:    c09Run,
		Replay: c09Replay,
		Post:   postDistinct(12),
	})
}

type c09Case struct {
	Route  string             `json:"route"`
	Colors []color.RGBA       `json:"colors,omitempty"`
	Blend  [3]uint8           `json:"blend,omitempty"`
	Ctx    int                `json:"ctx,omitempty"`
	Hex    string             `json:"hex,omitempty"`
	Pal    map[int]color.RGBA `json:"palette,omitempty"`
	// Pos, Len: the colour stood at position Pos of a batch of Len colours (the
	// position decides ADJ / increment of the SetCReg call that carries it)
	Pos int `json:"pos,omitempty"`
	Len int `json:"len,omitempty"`
}

type c09State struct {
	w  *mc.W
	ps ref.Parser
	rd rec.Dest
}

func c09Run(w *mc.W, u int) {
	st := &c09State{w: w}
	st.rd.NoPal = true
	st.ps.NoPal = true
	p := c09plan(w.Tier)
	switch {
	case u < p.direct:
		st.direct(u)
	case u < p.direct+p.indirect:
		st.indirect(u - p.direct)
	case u < p.direct+p.indirect+p.decoder:
		st.decoder(u - p.direct - p.indirect)
	case u < p.direct+p.indirect+p.decoder+p.resolve:
		st.resolve(uint8(u - p.direct - p.indirect - p.decoder))
	default:
		st.palettes(u - p.direct - p.indirect - p.decoder - p.resolve)
	}
}

func c09Replay(w *mc.W, data json.RawMessage) error {
	var cs c09Case
	if err := unmarshalCase(data, &cs); err != nil {
		return err
	}
	st := &c09State{w: w}
	st.rd.NoPal = true
	switch cs.Route {
	case "direct", "blend", "palette-index", "creg-ref":
		n := cs.Len
		if n <= cs.Pos {
			n = cs.Pos + 1
		}
		cols := make([]ivg.Color, n)
		for i := range cols {
			cols[i] = ivg.RGBAColor(ref.OpaqueBlack)
		}
		switch cs.Route {
		case "direct":
			cols[cs.Pos] = ivg.RGBAColor(cs.Colors[0])
		case "blend":
			cols[cs.Pos] = ivg.BlendColor(cs.Blend[0], cs.Blend[1], cs.Blend[2])
		case "palette-index":
			cols[cs.Pos] = ivg.PaletteIndexColor(cs.Blend[0])
		default:
			cols[cs.Pos] = ivg.CRegColor(cs.Blend[0])
		}
		st.encodeBatch(cs.Route, cols, cs.Pos)
	case "resolve":
		st.resolveOne(cs.Blend[0], cs.Blend[1], cs.Blend[2], cs.Ctx)
	case "decoder":
		st.decodeStream(bytesCase{Hex: cs.Hex}.bytes(), "decoder")
	case "repeat":
		st.repeats()
	case "palette-stream":
		st.paletteStream(bytesCase{Hex: cs.Hex}.bytes())
	case "palette":
		pal := ivg.DefaultPalette
		for i, c := range cs.Pal {
			pal[i] = c
		}
		st.palette(&pal)
	}
	return nil
}

// ---- (i) encoder routes ------------------------------------------------------

func (st *c09State) direct(u int) {
	w := st.w
	cols := make([]ivg.Color, 0, 4096)
	flush := func() {
		if len(cols) > 0 {
			st.encodeBatch("direct", cols, -1)
			cols = cols[:0]
		}
	}
	if w.Thorough {
		base := uint32(u) << 20
		for off := uint32(0); off < 1<<20; off++ {
			v := base + off
			cols = append(cols, ivg.RGBAColor(color.RGBA{uint8(v >> 24), uint8(v >> 16), uint8(v >> 8), uint8(v)}))
			if len(cols) == cap(cols) {
				flush()
				if w.Expired() {
					return
				}
			}
		}
		flush()
		return
	}
	nf := len(c09Fill)
	if u >= len(c09Pairs)*nf*nf {
		// quick tier, second family: red = unit, green over the multiples of 0x11, every blue and alpha (268 M colours)
		r := uint8(u - len(c09Pairs)*nf*nf)
		for g := 0; g < 256; g += 0x11 {
			for ba := 0; ba < 1<<16; ba++ {
				cols = append(cols, ivg.RGBAColor(color.RGBA{r, uint8(g), uint8(ba >> 8), uint8(ba)}))
				if len(cols) == cap(cols) {
					flush()
				}
			}
			if w.Expired() {
				return
			}
		}
		flush()
		return
	}
	pair := c09Pairs[u/(nf*nf)]
	f1, f2 := c09Fill[u/nf%nf], c09Fill[u%nf]
	for a := 0; a < 256; a++ {
		for b := 0; b < 256; b++ {
			var ch [4]uint8
			k := 0
			for i := 0; i < 4; i++ {
				switch i {
				case pair[0]:
					ch[i] = uint8(a)
				case pair[1]:
					ch[i] = uint8(b)
				default:
					if k == 0 {
						ch[i] = f1
					} else {
						ch[i] = f2
					}
					k++
				}
			}
			cols = append(cols, ivg.RGBAColor(color.RGBA{ch[0], ch[1], ch[2], ch[3]}))
			if len(cols) == cap(cols) {
				flush()
			}
		}
	}
	flush()
}

func (st *c09State) indirect(u int) {
	var cols []ivg.Color
	if u == 0 {
		for i := 0; i < 256; i++ {
			cols = append(cols, ivg.PaletteIndexColor(uint8(i)))
		}
		st.encodeBatch("palette-index", cols, -1)
		cols = cols[:0]
		for i := 0; i < 256; i++ {
			cols = append(cols, ivg.CRegColor(uint8(i)))
		}
		st.encodeBatch("creg-ref", cols, -1)
		cols = cols[:0]
	}
	if u == 0 {
		st.repeats()
	}
	c1s := []int{0x00, 0x7c, 0x7d, 0x7e, 0x7f, 0x80, 0x81, 0xbf, 0xc0, 0xc1, 0xff, 0x30, 0x63, 0x18, 0x90, 0xd0}
	tFrom, tTo := 0, 256
	{
		tFrom, tTo = u, u+1
		c1s = c1s[:0]
		for i := 0; i < 256; i++ {
			c1s = append(c1s, i)
		}
	}
	for t := tFrom; t < tTo; t++ {
		for c0 := 0; c0 < 256; c0++ {
			for _, c1 := range c1s {
				cols = append(cols, ivg.BlendColor(uint8(t), uint8(c0), uint8(c1)))
			}
			if len(cols) >= 4096 {
				st.encodeBatch("blend", cols, -1)
				cols = cols[:0]
			}
		}
	}
	if len(cols) > 0 {
		st.encodeBatch("blend", cols, -1)
	}
}

// repeats: the same colour assigned twice in a row to the same register is two assignments
// (a blend that names its own target register is not even idempotent).
func (st *c09State) repeats() {
	w := st.w
	cols := []ivg.Color{rgba(0x30, 0x66, 0x07, 0x80), rgba(0xff, 0xff, 0xff, 0xff), rgba(0x02, 0x4a, 0x8a, 0x00), ivg.PaletteIndexColor(5), ivg.CRegColor(0), ivg.CRegColor(9),
		ivg.BlendColor(0x40, 0xc0, 0x85), ivg.BlendColor(0x80, 0x7c, 0xc0), ivg.BlendColor(0xff, 0xc3, 0xc0), ivg.BlendColor(0x11, 0x22, 0x33)}
	for ci, c := range cols {
		for adj := uint8(0); adj < 2; adj++ {
			w.EvalN(1)
			var e encode.Encoder
			e.SetCSel(3 * adj) // the blends name CREG[0] and CREG[3]: with ADJ 1 and CSEL 3... any register will do
			e.SetCReg(adj, false, c)
			e.SetCReg(adj, false, c)
			out, err := e.Bytes()
			var rd rec.Dest
			cs := c09Case{Route: "repeat", Pos: ci, Len: int(adj)}
			if err != nil || decode.Decode(&rd, out) != nil {
				w.Fail("repeat:error", fmt.Sprintf("%s twice: Bytes err %v, stream %x", rec.ColorString(c), err, out), cs)
				continue
			}
			n := 0
			for i := range rd.Calls {
				if rd.Calls[i].M == rec.MSetCReg && rd.Calls[i].C == c && rd.Calls[i].Adj == adj {
					n++
				}
			}
			if n != 2 {
				w.Fail("repeat:dropped", fmt.Sprintf("SetCReg(%d,false,%s) twice in a row decodes to %s", adj, rec.ColorString(c), rec.CallsString(rd.Calls)), cs)
			}
		}
	}
}

// expectedOf is what the statement says must come back for a written colour.
func expectedOf(c ivg.Color) ivg.Color { return c }

// encodeBatch writes cols through one Encoder and judges every position (only < 0) or
// just position only. A failure of the whole batch is attributed by re-running it once
// per position with every other position replaced by opaque black.
func (st *c09State) encodeBatch(route string, cols []ivg.Color, only int) {
	w := st.w
	var e encode.Encoder
	for i, c := range cols {
		switch i % 3 {
		case 0:
			e.SetCReg(0, false, c)
		case 1:
			e.SetCReg(uint8(i%7), false, c)
		default:
			e.SetCReg(0, true, c)
		}
	}
	out, err := e.Bytes()
	w.EvalN(int64(len(cols)))
	mkCase := func(i int) c09Case {
		k, d := rec.ColorParts(cols[i])
		cs := c09Case{Route: route, Pos: i, Len: len(cols)}
		switch {
		case k == rec.KRGBA:
			cs.Route, cs.Colors = "direct", []color.RGBA{d}
		case route == "palette-index" || route == "creg-ref":
			// these batches hold constructor(i) at position i: record the constructor argument
			cs.Blend = [3]uint8{uint8(i)}
		default:
			cs.Blend = [3]uint8{d.R, d.G, d.B}
		}
		return cs
	}
	batchFail := func(key, what string) {
		if only >= 0 || len(cols) == 1 {
			w.Fail(key, what, mkCase(max(only, 0)))
			return
		}
		found := w.Failed()
		tmp := make([]ivg.Color, len(cols))
		for i := range cols {
			for j := range tmp {
				tmp[j] = ivg.RGBAColor(ref.OpaqueBlack)
			}
			tmp[i] = cols[i]
			st.encodeBatch(route, tmp, i)
		}
		if !found && !w.Failed() {
			// no single position reproduces it: record the batch as a whole
			w.Fail(key+":batch", what, mkCase(len(cols)-1))
		}
	}
	if err != nil {
		batchFail(route+":bytes-error", err.Error())
		return
	}
	st.rd.ResetLog()
	if derr := decode.Decode(&st.rd, out); derr != nil {
		batchFail(route+":decode-error", fmt.Sprintf("Decode of encoder output failed: %v", derr))
		return
	}
	w.Trace()
	p := st.ps.Parse(out)
	if !p.OK {
		batchFail(route+":output-malformed", "encoder output rejected by the reference parser: "+p.Reason)
		return
	}
	if len(st.rd.Calls) != len(cols)+1 || len(p.Calls) != len(cols)+1 {
		batchFail(route+":call-count", fmt.Sprintf("%d colours written, %d calls decoded", len(cols), len(st.rd.Calls)-1))
		return
	}
	// measure the form lengths by walking the stream with the reference tables
	pos := p.MetaLen
	for i, c := range cols {
		if only >= 0 && i != only {
			pos += 1 + []int{1, 2, 3, 4, 3}[(out[pos]-0x80)>>3]
			continue
		}
		got := st.rd.Calls[i+1]
		want := expectedOf(c)
		op := out[pos]
		n := []int{1, 2, 3, 4, 3}[(op-0x80)>>3]
		pos += 1 + n
		kind, d := rec.ColorParts(c)
		if got.M != rec.MSetCReg || got.C != want {
			w.Fail(route+":colour-changed", fmt.Sprintf("wrote %s, decoded %s", rec.ColorString(c), got), mkCase(i))
			continue
		}
		if got.C != p.Calls[i+1].C {
			w.Fail(route+":table-mismatch", fmt.Sprintf("form %x: decoder says %s, specification tables say %s", out[pos-n:pos], rec.ColorString(got.C), rec.ColorString(p.Calls[i+1].C)), mkCase(i))
		}
		h := mc.NewHasher()
		h.Str(route)
		h.Byte(byte(n))
		h.Byte(kind)
		h.Bool(ref.Premul(d))
		h.Bool(ref.IsGradient(d))
		nt := n > 1
		if kind == rec.KBlend {
			nt = d.R > 0 && d.R < 255
		}
		w.Outcome(h.Sum(), nt)
	}
	if w.WantSample() {
		w.Sample(map[string]any{"route": route, "first_colour": rec.ColorString(cols[0]), "batch": len(cols), "stream_prefix": hexShort(out)})
	}
}

// ---- (ii) decoder tables -------------------------------------------------------

func (st *c09State) decodeStream(b []byte, route string) {
	w := st.w
	st.rd.ResetLog()
	err := decode.Decode(&st.rd, b)
	p := st.ps.Parse(b)
	if (err == nil) != p.OK {
		w.Fail(route+":accept", fmt.Sprintf("stream %s: err=%v reference ok=%v", hexShort(b), err, p.OK), c09Case{Route: "decoder", Hex: fmt.Sprintf("%x", b)})
		return
	}
	w.EvalN(int64(len(p.Calls)))
	if i := firstDiff(st.rd.Calls, p.Calls); i >= 0 {
		// isolate the failing instruction for the replay
		w.Fail(route+":table", fmt.Sprintf("call %d: decoder delivered %s, specification tables say %s", i, callAt(st.rd.Calls, i), callAt(p.Calls, i)), c09Case{Route: "decoder", Hex: fmt.Sprintf("%x", b)})
	}
	for i := range p.Calls {
		if p.Calls[i].M != rec.MSetCReg {
			continue
		}
		k, d := rec.ColorParts(p.Calls[i].C)
		h := mc.NewHasher()
		h.Str(route)
		h.Byte(k)
		h.Bool(ref.Premul(d))
		h.Bool(ref.IsGradient(d))
		w.Outcome(h.Sum(), true)
	}
}

func (st *c09State) decoder(u int) {
	pre := append(append([]byte{}, gen.Magic...), 0x00)
	buf := append([]byte{}, pre...)
	emit := func(ins ...byte) {
		buf = append(buf, ins...)
		if len(buf) > 8192 {
			st.decodeStream(buf, "decoder")
			buf = append(buf[:0], pre...)
		}
	}
	flush := func() {
		if len(buf) > len(pre) {
			st.decodeStream(buf, "decoder")
			buf = append(buf[:0], pre...)
		}
	}
	switch {
	case u == 0:
		for x := 0; x < 256; x++ {
			emit(0x80, byte(x))
			emit(0xa0, 0x40, byte(x), byte(255-x))
			emit(0xa7, byte(x), 0x7f, 0x80)
		}
		for x := 0; x < 65536; x++ {
			emit(0x88+byte(x%8), byte(x>>8), byte(x))
		}
		for ch := 0; ch < 4; ch++ {
			for x := 0; x < 256; x++ {
				for _, o := range []byte{0x00, 0x7f, 0x80, 0xff} {
					c := [4]byte{o, o ^ 0x55, o ^ 0xaa, o}
					c[ch] = byte(x)
					emit(0x98, c[0], c[1], c[2], c[3])
					if ch < 3 {
						emit(0x90, c[0], c[1], c[2])
					}
				}
			}
		}
		flush()
	case u <= 256: // thorough: all 2^24 three-byte direct colours
		r := byte(u - 1)
		for g := 0; g < 256; g++ {
			for b := 0; b < 256; b++ {
				emit(0x90, r, byte(g), byte(b))
			}
		}
		flush()
	default: // thorough: all 2^32 four-byte colours
		base := uint32(u-257) << 20
		for off := uint32(0); off < 1<<20; off++ {
			v := base + off
			emit(0x98, byte(v>>24), byte(v>>16), byte(v>>8), byte(v))
			if off&0xffff == 0 && st.w.Expired() {
				return
			}
		}
		flush()
	}
}

// ---- (iii) blend arithmetic ----------------------------------------------------

var c09Ctx [4]struct{ pal, creg [64]color.RGBA }

func init() {
	for i := 0; i < 64; i++ {
		u := uint8(i)
		c09Ctx[0].pal[i] = color.RGBA{0, 0, 0, 0xff}
		c09Ctx[0].creg[i] = color.RGBA{0, 0, 0, 0xff}
		c09Ctx[1].pal[i] = color.RGBA{u * 4, 255 - u*3, u*7 + 1, 0xff}
		c09Ctx[1].creg[i] = c09Ctx[1].pal[i]
		a := 40 + u*3
		c09Ctx[2].pal[i] = color.RGBA{a / 2, a, a / 3, a}
		c09Ctx[2].creg[i] = color.RGBA{a, a / 4, 0, a}
		c09Ctx[3].pal[i] = color.RGBA{u, u, u, 0xff}
		c09Ctx[3].creg[i] = color.RGBA{255 - u, u / 2, 3, 0xfe - u}
	}
	c09Ctx[3].creg[5] = color.RGBA{0x04, 0x4a, 0x8a, 0x00} // a gradient value in a register
	c09Ctx[2].pal[63] = color.RGBA{}
}

func (st *c09State) resolve(t uint8) {
	for c0 := 0; c0 < 256; c0++ {
		for c1 := 0; c1 < 256; c1++ {
			for ctx := range c09Ctx {
				st.resolveOne(t, uint8(c0), uint8(c1), ctx)
			}
		}
	}
	// through the Renderer's paint (subset): palette = ctx palette, registers seeded from it
	for _, c0 := range []uint8{0x00, 0x7c, 0x7d, 0x7f, 0x80, 0x85, 0xc0, 0xc3} {
		for _, c1 := range []uint8{0x7c, 0x7e, 0x7f, 0x81, 0xbf, 0xc1, 0x30} {
			for ctx := 1; ctx < 3; ctx++ {
				st.resolveRender(t, c0, c1, ctx)
			}
		}
	}
}

func (st *c09State) resolveOne(t, c0, c1 uint8, ctx int) {
	w := st.w
	w.EvalN(1)
	c := &c09Ctx[ctx]
	got := ivg.BlendColor(t, c0, c1).Resolve(&c.pal, &c.creg)
	want := ref.Color3Indirect(t, c0, c1).Resolve(&c.pal, &c.creg)
	cs := c09Case{Route: "resolve", Blend: [3]uint8{t, c0, c1}, Ctx: ctx}
	if got != want {
		w.Fail("resolve:formula", fmt.Sprintf("blend(t=%d,c0=%#x,c1=%#x) in context %d resolves to %v, specification formula gives %v", t, c0, c1, ctx, got, want), cs)
	}
	r0 := ref.Color1(c0).Resolve(&c.pal, &c.creg)
	r1 := ref.Color1(c1).Resolve(&c.pal, &c.creg)
	if t == 0 && got != r0 {
		w.Fail("resolve:t0", fmt.Sprintf("blend(t=0,c0=%#x,c1=%#x) = %v, c0 resolves to %v", c0, c1, got, r0), cs)
	}
	if t == 255 && got != r1 {
		w.Fail("resolve:t255", fmt.Sprintf("blend(t=255,c0=%#x,c1=%#x) = %v, c1 resolves to %v", c0, c1, got, r1), cs)
	}
	if ref.Premul(r0) && ref.Premul(r1) && !ref.Premul(got) {
		w.Fail("resolve:premul", fmt.Sprintf("blend(t=%d) of premultiplied %v and %v gives non-premultiplied %v", t, r0, r1, got), cs)
	}
	if c1 == 0x81 && c0 == 0x7f {
		h := mc.NewHasher()
		h.Str("resolve")
		h.Byte(byte(ctx))
		h.Byte(got.A)
		w.Outcome(h.Sum(), t > 0 && t < 255)
	}
}

func (st *c09State) resolveRender(t, c0, c1 uint8, ctx int) {
	w := st.w
	w.EvalN(1)
	c := &c09Ctx[ctx]
	var ras rec.Raster
	var z render.Renderer
	z.SetRasterizer(&ras, image.Rect(0, 0, 16, 16))
	z.Reset(ivg.DefaultViewBox, c.pal)
	z.SetCReg(0, false, ivg.BlendColor(t, c0, c1))
	z.StartPath(0, 0, 0)
	z.AbsLineTo(10, 0)
	z.AbsLineTo(0, 10)
	z.ClosePathEndPath()
	want := ref.Color3Indirect(t, c0, c1).Resolve(&c.pal, &c.pal)
	cs := c09Case{Route: "resolve", Blend: [3]uint8{t, c0, c1}, Ctx: ctx}
	var paint *rec.Paint
	for i := range ras.Calls {
		if ras.Calls[i].K == rec.RDraw {
			paint = &ras.Calls[i].Paint
		}
	}
	if want.A == 0 && ref.Premul(want) {
		if paint != nil {
			w.Fail("resolve:render-transparent-drawn", fmt.Sprintf("blend resolving to transparent %v was drawn", want), cs)
		}
		return
	}
	if !ref.Premul(want) {
		return // C04's subject
	}
	if paint == nil || paint.Kind != 1 || !paint.FlatOK || paint.Flat8 != want {
		w.Fail("resolve:render-paint", fmt.Sprintf("blend(t=%d,c0=%#x,c1=%#x) painted with %v, specification formula gives %v", t, c0, c1, paint, want), cs)
	}
}

// ---- (iv) suggested palettes ---------------------------------------------------

var c09PalColors = []color.RGBA{
	{0xff, 0xff, 0xff, 0xff}, {0x40, 0x80, 0xc0, 0xff}, // 1-byte opaque
	{0xc0, 0xc0, 0xc0, 0xc0}, {0x80, 0x80, 0x80, 0x80}, {0, 0, 0, 0}, // 1-byte specials
	{0x40, 0x40, 0x40, 0x40}, {0x00, 0x00, 0x00, 0x80}, {0x40, 0x00, 0x80, 0xc0}, {0x00, 0x00, 0x00, 0x40}, // Is1-shaped, not 1-byte encodable
	{0x33, 0x88, 0x00, 0xff}, {0x11, 0x22, 0x33, 0x44}, {0x88, 0x88, 0x88, 0x88}, // 2-byte
	{0x30, 0x66, 0x07, 0xff}, {0x01, 0x02, 0x03, 0xff}, // 3-byte
	{0x30, 0x66, 0x07, 0x80}, {0x01, 0x01, 0x01, 0x01}, {0x00, 0x00, 0x7f, 0x7f}, {0xfe, 0xfe, 0xfe, 0xfe}, // 4-byte translucent
	{0x00, 0x00, 0x01, 0xff}, {0x00, 0x00, 0x00, 0xfe},
}

var c09Positions = []int{0, 1, 2, 31, 62, 63}

func c09PosSets() [][]int {
	var sets [][]int
	n := len(c09Positions)
	for a := 0; a < n; a++ {
		sets = append(sets, []int{c09Positions[a]})
		for b := a + 1; b < n; b++ {
			sets = append(sets, []int{c09Positions[a], c09Positions[b]})
			for c := b + 1; c < n; c++ {
				sets = append(sets, []int{c09Positions[a], c09Positions[b], c09Positions[c]})
			}
		}
	}
	return sets
}

func (st *c09State) palettes(u int) {
	sets := c09PosSets()
	switch {
	case u < len(sets):
		set := sets[u]
		idx := make([]int, len(set))
		for {
			pal := ivg.DefaultPalette
			for i, p := range set {
				pal[p] = c09PalColors[idx[i]]
			}
			st.palette(&pal)
			i := 0
			for ; i < len(idx); i++ {
				idx[i]++
				if idx[i] < len(c09PalColors) {
					break
				}
				idx[i] = 0
			}
			if i == len(idx) {
				break
			}
		}
	case u == len(sets):
		for n := 1; n <= 64; n++ {
			for _, c := range c09PalColors {
				pal := ivg.DefaultPalette
				for i := 0; i < n; i++ {
					pal[i] = c
				}
				st.palette(&pal)
				// mixed: last entry of another class
				pal[n-1] = c09PalColors[(n*7)%len(c09PalColors)]
				st.palette(&pal)
			}
		}
	default:
		// decoder side: every one-byte entry after, and before, a direct non-black one (an entry
		// that is a palette / register reference is opaque black whatever earlier entries hold)
		for x := 0; x < 256; x++ {
			st.paletteStream([]byte{0x01, 0x63, byte(x)})
			st.paletteStream([]byte{0x01, byte(x), 0x18})
			st.paletteStream([]byte{0x02, 0x30, 0x7c, byte(x)})
		}
		for x := 0; x < 65536; x++ {
			c := ref.Color2(byte(x>>8), byte(x)).D
			if !ref.Premul(c) {
				continue
			}
			pal := ivg.DefaultPalette
			pal[0] = c
			st.palette(&pal)
			pal[1] = color.RGBA{0x30, 0x66, 0x07, 0x80}
			pal[0], pal[2] = pal[1], c
			st.palette(&pal)
		}
	}
}

// paletteStream decodes a hand-made palette chunk body and compares with the reference tables.
func (st *c09State) paletteStream(body []byte) {
	w := st.w
	w.EvalN(1)
	b := append(append([]byte{}, gen.Magic...), 0x02, byte(2*(1+len(body))), 0x02)
	b = append(b, body...)
	cs := c09Case{Route: "palette-stream", Hex: fmt.Sprintf("%x", body)}
	var ps ref.Parser
	var rd rec.Dest
	p := ps.Parse(b)
	err, pnc, _ := safeDecode(&rd, b)
	if pnc != nil || (err == nil) != p.OK || (err == nil && (len(rd.Calls) != 1 || rd.Calls[0].Pal == nil || *rd.Calls[0].Pal != p.Pal)) {
		w.Fail("palette-stream:table", fmt.Sprintf("metadata %x: Decode err=%v panic=%v palette head %v; specification: ok=%v palette head %v", b, err, pnc, palHead(rd.Calls), p.OK, p.Pal[:3]), cs)
	}
	h := mc.NewHasher()
	h.Str("palette-stream")
	h.Byte(body[len(body)-1] >> 6)
	w.Outcome(h.Sum(), true)
}

func palHead(calls []rec.Call) any {
	if len(calls) == 0 || calls[0].Pal == nil {
		return nil
	}
	return calls[0].Pal[:3]
}

// palette writes the suggested palette next to the default viewBox (palette chunk only) and
// next to a custom one (two chunks).
func (st *c09State) palette(pal *[64]color.RGBA) {
	st.paletteVB(pal, ivg.DefaultViewBox)
	st.paletteVB(pal, ivg.ViewBox{MinX: -24, MinY: -20.5, MaxX: 300, MaxY: 24})
}

func (st *c09State) paletteVB(pal *[64]color.RGBA, vb ivg.ViewBox) {
	w := st.w
	w.EvalN(1)
	var e encode.Encoder
	e.Reset(vb, *pal)
	out, err := e.Bytes()
	mk := func() c09Case {
		m := map[int]color.RGBA{}
		for i, c := range pal {
			if c != (color.RGBA{0, 0, 0, 0xff}) {
				m[i] = c
			}
		}
		return c09Case{Route: "palette", Pal: m}
	}
	if err != nil {
		w.Fail("palette:bytes-error", err.Error(), mk())
		return
	}
	var rd rec.Dest
	if derr := decode.Decode(&rd, out); derr != nil || len(rd.Calls) != 1 {
		w.Fail("palette:decode-error", fmt.Sprintf("metadata %x: Decode err=%v calls=%d", out, derr, len(rd.Calls)), mk())
		return
	}
	w.Trace()
	got := rd.Calls[0].Pal
	if rd.Calls[0].VB != vb {
		w.Fail("palette:viewbox-changed", fmt.Sprintf("viewBox %v written next to the palette comes back as %v (metadata %x)", vb, rd.Calls[0].VB, out), mk())
	}
	if *got != *pal {
		i := 0
		for ; i < 64 && got[i] == pal[i]; i++ {
		}
		cls := "other"
		if _, ok := ref.Is1Byte(pal[i]); !ok && pal[i].R&0x3f == 0 && pal[i].G&0x3f == 0 && pal[i].B&0x3f == 0 && pal[i].A&0x3f == 0 {
			cls = "is1-shaped-translucent"
		}
		w.Fail("palette:entry-changed:"+cls, fmt.Sprintf("suggested palette entry %d given as %v comes back as %v (metadata %x)", i, pal[i], got[i], out), mk())
	}
	p := st.ps.Parse(out)
	if !p.OK || p.Pal != *got {
		w.Fail("palette:table-mismatch", fmt.Sprintf("metadata %x: decoder and reference disagree (%s)", out, p.Reason), mk())
	}
	h := mc.NewHasher()
	h.Str("palette")
	n := 63
	for ; n >= 0 && pal[n] == (color.RGBA{0, 0, 0, 0xff}); n-- {
	}
	h.Byte(byte(n))
	h.Bool(vb == ivg.DefaultViewBox)
	if vb == ivg.DefaultViewBox && len(out) > 8 {
		h.Byte(out[7] >> 6)
	}
	w.Outcome(h.Sum(), n >= 0)
}
