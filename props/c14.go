package props

import (
	"bytes"
	"encoding/json"
	"fmt"
	"image"
	"image/color"

	"github.com/reactivego/ivg"
	"github.com/reactivego/ivg/decode"
	"github.com/reactivego/ivg/encode"
	"github.com/reactivego/ivg/render"
	"verif/mc"
	"verif/rec"
	"verif/ref"
)

// C14 — palette options override exactly what they say, and are sanitised.
// Engine S over option lists.

type c14Opt struct {
	name  string
	full  *[64]color.RGBA
	index int
	col   color.Color
}

var c14P1, c14P2 = func() (a, b [64]color.RGBA) {
	for i := range a {
		u := uint8(i)
		a[i] = color.RGBA{u * 4, 255 - u*3, u, 0xff}
		b[i] = color.RGBA{u, u / 2, u / 4, 0x80 + u}
	}
	b[1] = color.RGBA{0x90, 0, 0, 0x10}        // invalid
	b[63] = color.RGBA{0x02, 0x4a, 0x8a, 0x00} // gradient-looking
	a[0] = color.RGBA{0, 0, 0, 0}              // transparent: switches paths off
	a[1] = color.RGBA{0x00, 0x00, 0xff, 0xfe}  // invalid by exactly one
	a[63] = color.RGBA{0x01, 0x01, 0x01, 0x00} // invalid by exactly one, alpha 0
	return
}()

var c14Black = ivg.DefaultPalette
var c14Zero [64]color.RGBA // 64 valid, fully transparent colours: switches every palette-coloured path off

var c14Cols = []struct {
	name string
	c    color.Color
}{
	{"opaque RGBA", color.RGBA{0x12, 0x34, 0x56, 0xff}},
	{"translucent NRGBA", color.NRGBA{0xff, 0x80, 0x00, 0x80}},
	{"Gray", color.Gray{0x77}},
	{"RGBA64", color.RGBA64{0x80ff, 0x2345, 0x3456, 0x8000}}, // valid at 8 bits; the red low byte exceeds alpha's only at 16 bits
	{"custom r>a", weird{0xffff, 0, 0, 0x8000}},
	{"invalid premultiplied RGBA (one channel exceeds alpha by 1)", color.RGBA{0x81, 0x00, 0x00, 0x80}},
	{"gradient-looking RGBA", color.RGBA{0x02, 0x4a, 0x8a, 0x00}},
}

var c14Opts = func() []c14Opt {
	os := []c14Opt{{name: "WithPalette(P1)", full: &c14P1}, {name: "WithPalette(P2)", full: &c14P2}, {name: "WithPalette(default: all opaque black)", full: &c14Black}, {name: "WithPalette(zero value: all transparent)", full: &c14Zero}}
	for _, i := range []int{0, 1, 63} {
		for _, c := range c14Cols {
			os = append(os, c14Opt{name: fmt.Sprintf("WithColorAt(%d,%s)", i, c.name), index: i, col: c.c})
		}
	}
	return os
}()

// graphics
var c14Graphics = func() [][]byte {
	var out [][]byte
	path := func(e *encode.Encoder, adj uint8) {
		e.StartPath(adj, -10, -10)
		e.AbsLineTo(10, -10)
		e.AbsLineTo(0, 10)
		e.ClosePathEndPath()
	}
	// 0: palette indices stored in registers
	{
		var e encode.Encoder
		for _, i := range []uint8{0, 1, 63} {
			e.SetCReg(0, false, ivg.PaletteIndexColor(i))
			path(&e, 0)
		}
		// the palette entry is still the palette entry after the register of the same number was overwritten
		e.SetCSel(1)
		e.SetCReg(0, false, rgba(0x20, 0x10, 0x08, 0x40))
		e.SetCSel(0)
		e.SetCReg(0, false, ivg.PaletteIndexColor(1))
		path(&e, 0)
		e.SetCReg(0, false, ivg.BlendColor(0x55, 0x81, 0xc1)) // palette[1] blended with CREG[1]
		path(&e, 0)
		b, _ := e.Bytes()
		out = append(out, append([]byte(nil), b...))
	}
	// 1: blends with palette operands
	{
		var e encode.Encoder
		e.SetCReg(0, false, ivg.BlendColor(0x40, 0x7f, 0x80))
		path(&e, 0)
		e.SetCReg(0, false, ivg.BlendColor(0x80, 0x81, 0xbf))
		path(&e, 0)
		e.SetCReg(0, false, ivg.BlendColor(0xff, 0x00, 0x80))
		path(&e, 0)
		b, _ := e.Bytes()
		out = append(out, append([]byte(nil), b...))
	}
	// 2: paths filled from the initial colour registers; number registers set so that a
	// palette value reinterpreted as a gradient would be a *valid* gradient
	{
		var e encode.Encoder
		e.SetNSel(10)
		e.SetNReg(0, true, 0)
		e.SetNReg(0, true, 1)
		path(&e, 0)
		e.SetCSel(1)
		path(&e, 0)
		path(&e, 2) // CREG[63]
		e.SetCSel(63)
		path(&e, 0)
		// CREG[1], read above for its initial content, is assigned at the end through an adjustment
		e.SetCSel(2)
		e.SetCReg(1, false, rgba(0x20, 0x10, 0x08, 0x40))
		b, _ := e.Bytes()
		out = append(out, append([]byte(nil), b...))
	}
	// 3: suggested palette in the metadata
	{
		var e encode.Encoder
		p := ivg.DefaultPalette
		p[0] = color.RGBA{0x10, 0x20, 0x30, 0xff}
		p[1] = color.RGBA{0x30, 0x66, 0x07, 0x80}
		p[2] = color.RGBA{0xff, 0xff, 0xff, 0xff}
		e.Reset(ivg.ViewBox{MinX: -24, MinY: -24, MaxX: 24, MaxY: 24}, p)
		e.SetNSel(10)
		e.SetNReg(0, true, 0)
		e.SetNReg(0, true, 1)
		path(&e, 0)
		e.SetCSel(2)
		path(&e, 0)
		path(&e, 1)
		e.SetCReg(0, false, ivg.BlendColor(0x20, 0x82, 0xc1))
		path(&e, 0)
		path(&e, 3) // CREG[63]
		b, _ := e.Bytes()
		out = append(out, append([]byte(nil), b...))
	}
	return out
}()

// c14Bad: a suggested palette (two entries), one valid instruction, then a reserved opcode
var c14Bad = []byte{0x89, 0x49, 0x56, 0x47, 0x02, 0x08, 0x02, 0x01, 0x7c, 0x18, 0x00, 0xc8}

type c14Case struct {
	Opts    []int  `json:"options"`
	Graphic int    `json:"graphic"`
	Names   string `json:"names,omitempty"`
}

func c14Depth(tier string) int {
	if tier == "thorough" {
		return 6
	}
	return 4
}

func init() {
	no := len(c14Opts)
	mc.Register(&mc.Check{
		ID:    "C14",
		Level: "model_checking",
		Rule: fmt.Sprintf("engine S over option lists: every list of <=4 (thorough <=6) options over a %d-option alphabet (WithPalette of two palettes incl. invalid, gradient-looking and transparent entries; WithColorAt for indices {0,1,63} x 7 colour values: opaque RGBA, translucent NRGBA, Gray, RGBA64, a custom color.Color reporting r>a, invalid premultiplied RGBA, gradient-looking RGBA) x 4 graphics (palette indices in registers incl. after the like-numbered register was overwritten, blends with palette operands, paths filled from the initial colour registers with number registers preset so that a reinterpretation as gradient would be valid, suggested palette in the metadata) x sinks {recorder, Renderer over a recording rasteriser, the same Renderer a second time}. ", no) +
			"Reference: suggested palette, options applied in order (colour model conversion to premultiplied RGBA), then every entry that is not a valid premultiplied colour replaced by opaque black; the Reset palette and every paint must equal the reference VM's; bytes, palette arrays and option colours unmodified. " +
			"states = option lists executed, transitions = options applied; non-trivial = list containing an invalid or gradient-looking user colour",
		Assumptions: []string{"WithColorAt with an index outside 0..63 is a caller error outside the quantifier"},
		Units:       func(tier string) int { return no + 1 },
		Run: func(w *mc.W, u int) {
			if u == no {
				for g := range c14Graphics {
					c14Check(w, &c14Case{Graphic: g})
				}
				return
			}
			D := c14Depth(w.Tier)
			seq := []int{u}
			var rc func()
			rc = func() {
				for g := range c14Graphics {
					c14Check(w, &c14Case{Opts: seq, Graphic: g})
				}
				if len(seq) == D || w.Expired() {
					return
				}
				for o := 0; o < no; o++ {
					seq = append(seq, o)
					rc()
					seq = seq[:len(seq)-1]
				}
			}
			rc()
			w.Depth(D)
		},
		Replay: func(w *mc.W, data json.RawMessage) error {
			var cs c14Case
			if err := unmarshalCase(data, &cs); err != nil {
				return err
			}
			c14Check(w, &cs)
			return nil
		},
		Post: postDistinct(20),
	})
}

func c14Check(w *mc.W, cs *c14Case) {
	w.Eval()
	w.State(1)
	w.Transition(int64(len(cs.Opts)))
	src := c14Graphics[cs.Graphic]
	srcCopy := append([]byte(nil), src...)
	p1, p2 := c14P1, c14P2
	names := ""
	var opts []decode.DecodeOption
	for i, o := range cs.Opts {
		O := &c14Opts[o]
		if i > 0 {
			names += ", "
		}
		names += O.name
		if O.full != nil {
			opts = append(opts, decode.WithPalette(*O.full))
		} else {
			opts = append(opts, decode.WithColorAt(O.index, O.col))
		}
	}
	fail := func(key, what string) {
		c := *cs
		c.Opts = append([]int(nil), cs.Opts...)
		c.Names = names
		w.Fail(key, fmt.Sprintf("graphic %d, options [%s]: %s", cs.Graphic, names, what), c)
	}
	// reference palette
	var ps ref.Parser
	p := ps.Parse(src)
	if !p.OK {
		w.HarnessError("graphic %d does not parse: %s", cs.Graphic, p.Reason)
		return
	}
	pal := p.Pal
	nt := false
	for _, o := range cs.Opts {
		O := &c14Opts[o]
		if O.full != nil {
			pal = *O.full
		} else {
			pal[O.index] = color.RGBAModel.Convert(O.col).(color.RGBA)
		}
	}
	userTouched := len(cs.Opts) > 0
	for i := range pal {
		if !ref.Premul(pal[i]) {
			if userTouched {
				nt = true
			}
			pal[i] = ref.OpaqueBlack
		}
	}
	// every other case: a decode that failed after its metadata came just before (its
	// suggested palette and its options are its own business)
	if (len(cs.Opts)+cs.Graphic)%2 == 1 {
		var scrap rec.Dest
		if err := decode.Decode(&scrap, c14Bad, decode.WithPalette(c14P2), decode.WithColorAt(1, color.RGBA{0xff, 0, 0xff, 0xff})); err == nil {
			w.HarnessError("the broken graphic decodes")
			return
		}
	}
	// sink 1: recorder
	var rd rec.Dest
	if err := decode.Decode(&rd, src, opts...); err != nil {
		fail("decode-error", err.Error())
		return
	}
	if len(rd.Calls) == 0 || rd.Calls[0].M != rec.MReset {
		fail("no-reset", "no Reset delivered")
		return
	}
	got := rd.Calls[0].Pal
	if *got != pal {
		i := 0
		for ; i < 64 && got[i] == pal[i]; i++ {
		}
		key := "reset-palette:entry"
		if !ref.Premul(got[i]) {
			key = "reset-palette:unsanitised"
			if ref.IsGradient(got[i]) {
				key = "reset-palette:unsanitised-gradient-looking"
			}
		}
		fail(key, fmt.Sprintf("Reset palette entry %d is %v, expected %v", i, got[i], pal[i]))
		return
	}
	// the rest of the calls must not depend on the options
	if i := firstDiff(rd.Calls[1:], p.Calls[1:]); i >= 0 {
		fail("calls-changed", fmt.Sprintf("call %d differs: %s vs %s", i+1, callAt(rd.Calls, i+1), callAt(p.Calls, i+1)))
		return
	}
	// sink 2: Renderer over a recording rasteriser, against the reference VM
	var z render.Renderer
	var ras rec.Raster
	rect := image.Rect(0, 0, 32, 32)
	z.SetRasterizer(&ras, rect)
	var vm ref.VM
	vm.Reset(pal)
	var wantPaints []ref.Paint
	for i := range p.Calls {
		c := &p.Calls[i]
		switch c.M {
		case rec.MSetCSel:
			vm.SetCSel(c.Adj)
		case rec.MSetNSel:
			vm.SetNSel(c.Adj)
		case rec.MSetCReg:
			k, d := rec.ColorParts(c.C)
			vm.SetCReg(c.Adj, c.Incr, ref.Color{Kind: k, D: d})
		case rec.MSetNReg:
			vm.SetNReg(c.Adj, c.Incr, c.A[0])
		case rec.MStartPath:
			if pt := vm.StartPath(c.Adj, rect.Dy()); pt.Kind != ref.PaintNone {
				wantPaints = append(wantPaints, pt)
			}
		}
	}
	// decoded twice into the same Renderer with the same options: the second decode starts from
	// the (same) effective palette again, not from what the first left in the registers
	for round, sfx := range []string{"", ":second-decode-into-the-same-renderer"} {
		if round == 1 && len(cs.Opts) > 4 {
			break // the second decode is explored for every list of up to 4 options
		}
		ras.ResetLog()
		if err := decode.Decode(&z, src, opts...); err != nil {
			fail("decode-error"+sfx, err.Error())
			return
		}
		var gotPaints []rec.Paint
		for i := range ras.Calls {
			if ras.Calls[i].K == rec.RDraw {
				gotPaints = append(gotPaints, ras.Calls[i].Paint)
			}
		}
		for i := range gotPaints {
			if gotPaints[i].Kind == 2 {
				fail("paint:user-colour-run-as-gradient"+sfx, fmt.Sprintf("path %d is painted with a gradient (%s); no gradient value was written by the graphic", i, gotPaints[i]))
				return
			}
		}
		if len(gotPaints) != len(wantPaints) {
			fail("paint:count"+sfx, fmt.Sprintf("%d paths drawn, reference draws %d (reference palette %v...)", len(gotPaints), len(wantPaints), pal[:3]))
			return
		}
		for i := range gotPaints {
			if gotPaints[i].Kind != 1 || !gotPaints[i].FlatOK || gotPaints[i].Flat8 != wantPaints[i].Flat {
				fail("paint:colour"+sfx, fmt.Sprintf("drawn path %d painted %s, reference %v", i, gotPaints[i], wantPaints[i].Flat))
				return
			}
		}
	}
	if !bytes.Equal(src, srcCopy) {
		fail("bytes-modified", "the encoded bytes were modified")
		copy(src, srcCopy)
	}
	if p1 != c14P1 || p2 != c14P2 {
		fail("palette-array-modified", "a caller-supplied palette array was modified")
		c14P1, c14P2 = p1, p2
	}
	h := mc.NewHasher()
	for _, o := range cs.Opts {
		h.Byte(byte(o))
	}
	h.Byte(byte(cs.Graphic))
	w.Outcome(h.Sum(), nt)
	if nt && w.WantSample() && len(cs.Opts) == 2 {
		w.Sample(map[string]any{"graphic_hex": hexShort(src), "options": names, "palette_head": fmt.Sprint(pal[:2], pal[63])})
	}
}
