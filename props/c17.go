package props

import (
	"bytes"
	"encoding/json"
	"fmt"
	"image"
	"image/color"
	"image/draw"

	"github.com/reactivego/ivg"
	"github.com/reactivego/ivg/decode"
	"github.com/reactivego/ivg/encode"
	"github.com/reactivego/ivg/generate"
	"github.com/reactivego/ivg/raster/vec"
	"github.com/reactivego/ivg/render"
	"verif/gen"
	"verif/mc"
	"verif/rec"
)

// C17 — no state across Reset; deterministic output. Engine S over pairs
// (earlier history A, later program B).

// A-letters: the C10 alphabet (incl. protocol violations) plus state-dirtying extras.
type c17Letter struct {
	name  string
	apply func(d ivg.Destination, e *encode.Encoder)
	class int  // protocol class (c10Step); kRead for mode-neutral letters
	opens bool // styling letter that leaves a path open
	// applyB, if set, replaces apply: the letter depends on the later program (index pi) and
	// on the metadata it will be run with (index into c01Metas)
	applyB func(d ivg.Destination, e *encode.Encoder, pi, meta int)
}

// c17Recolour passes every call through but swaps the red and blue channels of direct
// colours (gradient descriptors are left alone): the same graphic, differently coloured.
type c17Recolour struct{ ivg.Destination }

func (r c17Recolour) SetCReg(adj uint8, incr bool, c ivg.Color) {
	if k, d := rec.ColorParts(c); k == rec.KRGBA && !(d.A == 0 && d.B&0x80 != 0) {
		c = ivg.RGBAColor(color.RGBA{d.B, d.G, d.R, d.A})
	}
	r.Destination.SetCReg(adj, incr, c)
}

func c17Whole(name string, wrap func(ivg.Destination) ivg.Destination, moveVB bool) c17Letter {
	return c17Letter{name: name, class: kReset, applyB: func(d ivg.Destination, e *encode.Encoder, pi, meta int) {
		m := c01Metas[meta]
		if moveVB {
			m.vb.MinX, m.vb.MaxX, m.vb.MinY, m.vb.MaxY = m.vb.MinX+3, m.vb.MaxX+3, m.vb.MinY-5, m.vb.MaxY-5
		}
		d.Reset(m.vb, m.pal)
		if e != nil && c17Progs[pi].hires {
			e.HighResolutionCoordinates = true
		}
		c17Progs[pi].run(wrap(d))
	}}
}

var c17ALetters = func() []c17Letter {
	var ls []c17Letter
	for i := range c10Letters {
		l := c10Letters[i]
		ls = append(ls, c17Letter{name: l.name, class: l.class, apply: func(d ivg.Destination, e *encode.Encoder) {
			switch l.read {
			case 'b':
				if e != nil {
					e.Bytes()
				}
			case 'c':
				d.CSel()
			case 'n':
				d.NSel()
			case 'l':
				if e != nil {
					e.LOD()
				}
			case 'H', 'h':
				if e != nil {
					e.HighResolutionCoordinates = l.read == 'H'
				}
			default:
				l.call.Apply(d)
			}
		}})
	}
	ls = append(ls,
		c17Letter{name: "HighRes=true", class: kRead, apply: func(d ivg.Destination, e *encode.Encoder) {
			if e != nil {
				e.HighResolutionCoordinates = true
			}
		}},
		c17Letter{name: "SetCSel(63);SetNSel(62)", class: kStyling, apply: func(d ivg.Destination, e *encode.Encoder) { d.SetCSel(63); d.SetNSel(62) }},
		c17Letter{name: "17xRelLineTo", class: kDraw, apply: func(d ivg.Destination, e *encode.Encoder) {
			for i := 0; i < 17; i++ {
				d.RelLineTo(1, float32(i))
			}
		}},
		c17Letter{name: "AbsCubeTo", class: kDraw, apply: func(d ivg.Destination, e *encode.Encoder) { d.AbsCubeTo(1, 2, 3, 4, 5, 6) }},
		c17Letter{name: "AbsQuadTo", class: kDraw, apply: func(d ivg.Destination, e *encode.Encoder) { d.AbsQuadTo(7, 8, 9, 10) }},
		c17Letter{name: "gradient-regs", class: kStylingBadAdj, apply: func(d ivg.Destination, e *encode.Encoder) {
			d.SetCSel(10)
			d.SetNSel(10)
			for i := 0; i < 8; i++ {
				d.SetCReg(0, true, rgba(uint8(20*i), 0, 0, 0xff))
				d.SetNReg(0, true, float32(i)/8)
			}
			d.SetNReg(16, false, 0) // bad adj for an Encoder, plain write for a Renderer
			d.SetCSel(0)
			d.SetCReg(0, false, rgba(0x04, 0x4a, 0x8a, 0x00))
		}},
		c17Letter{name: "dirty-registers", class: kStyling, apply: func(d ivg.Destination, e *encode.Encoder) {
			d.SetCSel(20)
			d.SetNSel(14)
			for i := 0; i < 4; i++ {
				d.SetCReg(0, true, rgba(uint8(60*i), 9, 9, 0xff))
				d.SetNReg(0, true, float32(i)/4+0.125)
			}
			for i := uint8(0); i < 7; i++ {
				d.SetNReg(i, false, 0.5+float32(i))
			}
			d.SetCSel(0)
			d.SetCReg(0, false, rgba(0x04, 0x40|20, 0x80|20, 0x00))
			d.SetCSel(63)
			d.SetCReg(0, false, rgba(0x12, 0x34, 0x56, 0x78))
		}},
		c17Letter{name: "all-registers", class: kStyling, apply: func(d ivg.Destination, e *encode.Encoder) {
			// every colour and number register by incrementing writes, then the number registers
			// around the wrap by adjustment from selectors 0 and 3 (NREG[NSEL-adj] with adj > NSEL)
			for i := 0; i < 64; i++ {
				d.SetCReg(0, true, rgba(uint8(3*i), uint8(i), 7, 0xff))
				d.SetNReg(0, true, 0.25+float32(i)/128)
			}
			d.SetNSel(0)
			for i := uint8(1); i <= 6; i++ {
				d.SetNReg(i, false, 0.5+float32(i))
			}
			d.SetNSel(3)
			for i := uint8(0); i <= 6; i++ {
				d.SetNReg(i, false, 1.5-float32(i))
			}
		}},
		c17Letter{name: "Reset(shifted viewBox)", class: kReset, apply: func(d ivg.Destination, e *encode.Encoder) {
			// same extent as the viewBox of the later program, other origin
			d.Reset(ivg.ViewBox{MinX: -32 + 7, MinY: -32 - 2, MaxX: 32 + 7, MaxY: 32 - 2}, ivg.DefaultPalette)
		}},
		// the later graphic itself, rendered / encoded before: memoisation keyed on what the two have in common
		c17Whole("the later graphic, whole, same metadata", func(d ivg.Destination) ivg.Destination { return d }, false),
		c17Whole("the later graphic, whole, red and blue swapped", func(d ivg.Destination) ivg.Destination { return c17Recolour{d} }, false),
		c17Whole("the later graphic, whole, viewBox moved", func(d ivg.Destination) ivg.Destination { return d }, true),
		c17Letter{name: "SetLOD(100,200)", class: kStyling, apply: func(d ivg.Destination, e *encode.Encoder) { d.SetLOD(100, 200) }},
		c17Letter{name: "disabled-path", class: kStart, apply: func(d ivg.Destination, e *encode.Encoder) {
			d.SetCReg(0, false, rgba(0, 0, 0, 0))
			d.StartPath(0, 1, 1)
			d.AbsQuadTo(1, 2, 3, 4)
		}},
	)
	return ls
}()

// B programs: each exposes one piece of state that a leaky Reset would leave behind.
type c17Prog struct {
	name  string
	hires bool
	run   func(d ivg.Destination)
}

func tri(d ivg.Destination, adj uint8) {
	d.StartPath(adj, -10, -10)
	d.AbsLineTo(10, -10)
	d.AbsLineTo(0, 12)
	d.ClosePathEndPath()
}

var c17Progs = []c17Prog{
	{"default-lod-and-creg0", false, func(d ivg.Destination) { tri(d, 0) }},
	{"initial-creg63", false, func(d ivg.Destination) { d.SetCSel(63); tri(d, 0) }},
	{"initial-creg-adj", false, func(d ivg.Destination) { tri(d, 5) }},
	{"smooth-quad-first", false, func(d ivg.Destination) {
		d.StartPath(0, 1, 1)
		d.AbsSmoothQuadTo(5, 5)
		d.RelSmoothQuadTo(3, -2)
		d.ClosePathEndPath()
	}},
	{"smooth-cube-first", false, func(d ivg.Destination) {
		d.StartPath(0, 1, 1)
		d.RelSmoothCubeTo(1, 2, 5, 5)
		d.AbsSmoothCubeTo(8, 9, 10, -3)
		d.ClosePathEndPath()
	}},
	{"relative-first", false, func(d ivg.Destination) {
		d.StartPath(0, 2, 3)
		d.RelLineTo(4, 5)
		d.RelHLineTo(-3)
		d.RelVLineTo(2)
		d.ClosePathRelMoveTo(1, 1)
		d.RelLineTo(2, 0)
		d.ClosePathEndPath()
	}},
	{"lowres-quantised", false, func(d ivg.Destination) {
		d.StartPath(0, 1.01, 2.02)
		d.AbsLineTo(3.03, 4.04)
		d.AbsQuadTo(5.05, 6.06, 7.07, 8.08)
		d.ClosePathEndPath()
	}},
	{"hires", true, func(d ivg.Destination) {
		d.StartPath(0, 1.01, 2.02)
		d.AbsLineTo(3.03, 4.04)
		d.ClosePathEndPath()
	}},
	{"run-of-17", false, func(d ivg.Destination) {
		d.StartPath(0, 0, 0)
		for i := 0; i < 17; i++ {
			d.RelLineTo(1, float32(i%3)-1)
		}
		d.ClosePathEndPath()
	}},
	{"creg-increments", false, func(d ivg.Destination) {
		d.SetCReg(0, true, rgba(0xff, 0, 0, 0xff))
		d.SetCReg(0, true, rgba(0, 0xff, 0, 0xff))
		tri(d, 1)
		tri(d, 2)
	}},
	{"nreg-gradient-unset-matrix", false, func(d ivg.Destination) {
		// gradient whose matrix registers are never written: must read zeros
		d.SetCSel(20)
		d.SetNSel(20)
		d.SetCReg(0, true, rgba(0xff, 0, 0, 0xff))
		d.SetNReg(0, true, 0)
		d.SetCReg(0, true, rgba(0, 0, 0xff, 0xff))
		d.SetNReg(0, true, 1)
		d.SetCSel(0)
		d.SetCReg(0, false, rgba(0x02, 0x40|20, 0x80|20, 0x00))
		tri(d, 0)
	}},
	{"nreg-gradient-unset-matrix-nbase0", false, func(d ivg.Destination) { c17UnsetMatrix(d, 0) }},
	{"nreg-gradient-unset-matrix-nbase3", false, func(d ivg.Destination) { c17UnsetMatrix(d, 3) }},
	{"nreg-gradient-unset-matrix-nbase61", false, func(d ivg.Destination) { c17UnsetMatrix(d, 61) }},
	{"gradient-helper-readback", false, func(d ivg.Destination) {
		var g generate.Generator
		g.SetDestination(d)
		g.SetLinearGradient(-10, 0, 10, 0, generate.GradientSpreadPad, []generate.GradientStop{
			{Offset: 0, Color: color.RGBA{0xff, 0, 0, 0xff}}, {Offset: 1, Color: color.RGBA{0, 0, 0xff, 0xff}}})
		tri(d, 0)
	}},
	{"blend-with-creg", false, func(d ivg.Destination) {
		d.SetCReg(0, false, ivg.BlendColor(0x40, 0xc1, 0x80))
		tri(d, 0)
	}},
	{"arcs", false, func(d ivg.Destination) {
		d.StartPath(0, -5, 0)
		d.RelArcTo(5, 5, 0, false, true, 10, 0)
		d.AbsArcTo(5, 7, 0.125, true, false, -5, 0)
		d.ClosePathEndPath()
	}},
	{"lod-then-path", false, func(d ivg.Destination) { d.SetLOD(0, 80); tri(d, 0); d.SetLOD(80, 1e9); tri(d, 0) }},
	{"two-subpaths", false, func(d ivg.Destination) {
		d.StartPath(0, 0, 0)
		d.AbsHLineTo(5)
		d.AbsVLineTo(5)
		d.ClosePathAbsMoveTo(-5, -5)
		d.AbsCubeTo(1, 2, 3, 4, 5, 6)
		d.ClosePathEndPath()
	}},
}

// c17UnsetMatrix: a two-stop gradient at NBASE whose six matrix registers (below NBASE, modulo
// 64) and whose third stop register are never written: they must read as zero.
func c17UnsetMatrix(d ivg.Destination, nbase uint8) {
	d.SetCSel(20)
	d.SetNSel(nbase)
	d.SetCReg(0, true, rgba(0xff, 0, 0, 0xff))
	d.SetNReg(0, true, 0)
	d.SetCReg(0, true, rgba(0, 0, 0xff, 0xff))
	d.SetNReg(0, true, 1)
	d.SetCSel(0)
	d.SetCReg(0, false, rgba(0x02, 0x40|20, 0x80|nbase, 0x00))
	tri(d, 0)
}

type c17Case struct {
	A     []int  `json:"a_letters"`
	B     int    `json:"b_program"`
	Meta  int    `json:"meta"`
	Kind  string `json:"kind"` // encoder | renderer | renderer-truncated | pixels
	File  string `json:"file,omitempty"`
	Cut   int    `json:"cut,omitempty"`
	Names string `json:"names,omitempty"`
}

func c17Names(a []int) string {
	s := ""
	for i, l := range a {
		if i > 0 {
			s += "; "
		}
		s += c17ALetters[l].name
	}
	return s
}

func init() {
	nl := len(c17ALetters)
	mc.Register(&mc.Check{
		ID:    "C17",
		Level: "model_checking",
		Rule: fmt.Sprintf("engine S over pairs (A,B): A = every history of <=4 (thorough <=5; the last letter state-changing) letters over a %d-letter alphabet (the C10 letters incl. protocol violations and the resolution flag, selector/register/LOD dirtying, open runs, disabled paths, a Reset with a viewBox of the same extent elsewhere, and the later graphic itself run whole beforehand: unchanged, with red and blue swapped, with the viewBox moved) and every prefix of the testdata files as a truncated decode; B = %d probe programs, one per piece of state a leaky Reset would expose. ", nl, len(c17Progs)) +
			"Encoder: A; Reset(m); B; Bytes() must equal a fresh Encoder's bytes for 2 metadata; Renderer: A then B on one Renderer + recording rasteriser must give the same rasteriser log and paints as a fresh pair, and (subset) the same pixels with raster/vec. " +
			"states = (A,B) pairs, transitions = calls executed; non-trivial = A leaves the object in a dirty state (error, open path, non-default selectors/registers/LOD/flag)",
		Assumptions: []string{"the caller re-arms vec.Rasterizer.DrawOp and clears the image between decodes, as the documented API requires"},
		Units:       func(tier string) int { return nl + len(gen.Corpus()[:10]) },
		Run: func(w *mc.W, u int) {
			st := newC17State(w)
			if u >= nl {
				st.truncated(gen.Corpus()[u-nl])
				return
			}
			depth := 4
			if w.Thorough {
				depth = 5
			}
			var rcs func(a []int)
			rcs = func(a []int) {
				if w.Expired() {
					return
				}
				st.pair(a)
				if len(a) == depth {
					return
				}
				for l := 0; l < nl; l++ {
					if len(a) < 3 || c17Keep(l) {
						rcs(append(a, l))
					}
				}
			}
			rcs([]int{u})
			w.Depth(depth)
		},
		Replay: func(w *mc.W, data json.RawMessage) error {
			var cs c17Case
			if err := unmarshalCase(data, &cs); err != nil {
				return err
			}
			st := newC17State(w)
			if cs.File != "" {
				for _, f := range gen.Corpus() {
					if f.Name == cs.File {
						st.truncatedOne(f, cs.Cut)
					}
				}
				return nil
			}
			st.pair(cs.A)
			return nil
		},
		Post: postDistinct(20),
	})
}

// quick tier: the third letter is restricted to the letters that change
// private state in a new way (reads are covered at depths 1-2).
func c17Keep(l int) bool { return l >= 4 }

type c17State struct {
	w        *mc.W
	freshEnc [][2][]byte // per program, per meta
	freshRas [][]rec.RCall
	freshPix [][]byte
}

var c17Rect = image.Rect(0, 0, 40, 64)

func newC17State(w *mc.W) *c17State {
	st := &c17State{w: w}
	for pi := range c17Progs {
		var bs [2][]byte
		for m := 0; m < 2; m++ {
			e := &encode.Encoder{}
			bs[m] = st.encB(e, pi, m)
		}
		for m := 0; m < 2; m++ {
			// encoding the same calls twice gives byte-identical output
			if again := st.encB(&encode.Encoder{}, pi, m); !bytes.Equal(again, bs[m]) {
				w.Fail("not-deterministic:"+c17Progs[pi].name, fmt.Sprintf("two fresh Encoders fed program %q yield %x and %x", c17Progs[pi].name, bs[m], again), c17Case{B: pi, Meta: m, Kind: "encoder"})
			}
		}
		// calling Bytes (twice) after every single call, also inside open paths and pending runs,
		// changes nothing: each pair returns equal bytes and the final stream decodes to the same calls
		{
			m := &c01Metas[0]
			var rd rec.Dest
			rd.Next = &encode.Encoder{}
			rd.Reset(m.vb, m.pal)
			c17Progs[pi].run(&rd)
			e := &encode.Encoder{}
			for i := range rd.Calls {
				if i == 1 && c17Progs[pi].hires {
					e.HighResolutionCoordinates = true
				}
				rd.Calls[i].Apply(e)
				b1, err1 := e.Bytes()
				b1 = append([]byte(nil), b1...)
				b2, err2 := e.Bytes()
				if err1 != err2 || !bytes.Equal(b1, b2) {
					w.Fail("bytes-twice:"+c17Progs[pi].name, fmt.Sprintf("program %q: after call %d (%s) two consecutive Bytes() return %x and %x", c17Progs[pi].name, i, rd.Calls[i].String(), b1, b2), c17Case{B: pi, Kind: "encoder"})
					break
				}
			}
			// (the bytes themselves may differ: a Bytes call ends a pending run, so a run of two
			// becomes two runs of one - another call history, same meaning)
			fin, ferr := e.Bytes()
			var d1, d2 rec.Dest
			plain := bs[0]
			if i := bytes.LastIndexByte(plain, '|'); i >= 0 {
				plain = plain[:i]
			}
			if ferr != nil || decode.Decode(&d1, fin) != nil || decode.Decode(&d2, plain) != nil || firstDiff(d1.Calls, d2.Calls) >= 0 || len(d1.Calls) != len(d2.Calls) {
				w.Fail("bytes-in-between:"+c17Progs[pi].name, fmt.Sprintf("program %q with Bytes() called after every call yields %x (err %v), which does not decode to the same calls as %x", c17Progs[pi].name, fin, ferr, plain), c17Case{B: pi, Kind: "encoder"})
			}
		}
		st.freshEnc = append(st.freshEnc, bs)
		var z render.Renderer
		var ras rec.Raster
		z.SetRasterizer(&ras, c17Rect)
		st.renB(&z, pi)
		st.freshRas = append(st.freshRas, append([]rec.RCall(nil), ras.Calls...))
		st.freshPix = append(st.freshPix, st.pixB(nil, pi))
	}
	return st
}

func (st *c17State) encB(e *encode.Encoder, pi, meta int) []byte {
	m := &c01Metas[[2]int{0, 3}[meta]]
	e.Reset(m.vb, m.pal)
	if c17Progs[pi].hires {
		// only ever switched on: Reset documents that it clears the flag, and a
		// reused Encoder must behave like a fresh one without the caller clearing it
		e.HighResolutionCoordinates = true
	}
	c17Progs[pi].run(e)
	b, err := e.Bytes()
	if err != nil {
		return []byte("error:" + err.Error())
	}
	// the read-backs are results too
	l0, l1 := e.LOD()
	return append(append([]byte(nil), b...), []byte(fmt.Sprintf("|CSEL=%d NSEL=%d LOD=%08x,%08x hires=%v", e.CSel(), e.NSel(), f32b(l0), f32b(l1), e.HighResolutionCoordinates))...)
}

func (st *c17State) renB(z *render.Renderer, pi int) {
	m := &c01Metas[2]
	z.Reset(m.vb, m.pal)
	c17Progs[pi].run(z)
}

// pixB renders program pi with raster/vec; if dirty != nil it is applied first
// to the same Renderer/rasteriser (the caller then clears the image and re-arms DrawOp).
func (st *c17State) pixB(dirty func(z *render.Renderer), pi int) []byte {
	img := image.NewRGBA(c17Rect)
	vz := vec.NewRasterizer(img)
	var z render.Renderer
	z.SetRasterizer(vz, c17Rect)
	if dirty != nil {
		// the earlier history was rendered into a smaller image; the caller then points the same
		// rasteriser at the image of the later program
		small := image.NewRGBA(image.Rect(0, 0, 24, 20))
		vz = vec.NewRasterizer(small)
		z.SetRasterizer(vz, small.Bounds())
		z.Reset(c01Metas[2].vb, c01Metas[2].pal)
		dirty(&z)
		vz.Dst = img
		z.SetRasterizer(vz, c17Rect)
	}
	vz.DrawOp = draw.Src
	st.renB(&z, pi)
	return img.Pix
}

func (st *c17State) pair(a []int) {
	w := st.w
	names := c17Names(a)
	for pi := range c17Progs {
		// --- Encoder reuse
		for meta := 0; meta < 2; meta++ {
			w.Eval()
			w.State(1)
			e := &encode.Encoder{}
			for _, l := range a {
				if c17ALetters[l].applyB != nil {
					c17ALetters[l].applyB(e, e, pi, [2]int{0, 3}[meta])
				} else {
					c17ALetters[l].apply(e, e)
				}
			}
			w.Transition(int64(len(a)))
			got := st.encB(e, pi, meta)
			if !bytes.Equal(got, st.freshEnc[pi][meta]) {
				w.Fail("encoder-reuse:"+c17Progs[pi].name, fmt.Sprintf("Encoder after [%s]; Reset; program %q yields %x, a fresh Encoder yields %x", names, c17Progs[pi].name, got, st.freshEnc[pi][meta]),
					c17Case{A: append([]int(nil), a...), B: pi, Meta: meta, Kind: "encoder", Names: names})
			}
		}
		if !c17WellFormed(a) {
			// the decoder never delivers protocol violations to a Renderer
			continue
		}
		// --- Renderer reuse (direct calls)
		w.Eval()
		w.State(1)
		var z render.Renderer
		var ras rec.Raster
		z.SetRasterizer(&ras, c17Rect)
		z.Reset(c01Metas[2].vb, c01Metas[2].pal)
		for _, l := range a {
			if c17ALetters[l].applyB != nil {
				c17ALetters[l].applyB(&z, nil, pi, 2)
			} else {
				c17ALetters[l].apply(&z, nil)
			}
		}
		ras.ResetLog()
		st.renB(&z, pi)
		if d := c17DiffRas(ras.Calls, st.freshRas[pi]); d != "" {
			w.Fail("renderer-reuse:"+c17Progs[pi].name, fmt.Sprintf("Renderer after [%s]; Reset; program %q: %s", names, c17Progs[pi].name, d),
				c17Case{A: append([]int(nil), a...), B: pi, Kind: "renderer", Names: names})
		}
		h := mc.NewHasher()
		h.Str(c17Progs[pi].name)
		for _, l := range a {
			h.Byte(byte(l))
		}
		dirty := false
		for _, l := range a {
			if l >= 4 {
				dirty = true
			}
		}
		w.Outcome(h.Sum(), dirty)
	}
	// pixels (subset: histories of length <= 2)
	if len(a) <= 2 && c17WellFormed(a) {
		for pi := range c17Progs {
			w.Eval()
			pix := st.pixB(func(z *render.Renderer) {
				for _, l := range a {
					if c17ALetters[l].applyB != nil {
						c17ALetters[l].applyB(z, nil, pi, 2)
					} else {
						c17ALetters[l].apply(z, nil)
					}
				}
			}, pi)
			if !bytes.Equal(pix, st.freshPix[pi]) {
				w.Fail("pixels-reuse:"+c17Progs[pi].name, fmt.Sprintf("Renderer+vec.Rasterizer after [%s]: program %q renders different pixels than a fresh pair", names, c17Progs[pi].name),
					c17Case{A: append([]int(nil), a...), B: pi, Kind: "pixels", Names: names})
			}
		}
	}
	if w.WantSample() && len(a) == 3 {
		w.Sample(map[string]any{"A": names, "B": "all " + fmt.Sprint(len(c17Progs)) + " probe programs", "objects": "Encoder (2 metadata), Renderer+recording rasteriser"})
	}
}

// c17WellFormed: the history respects the styling/drawing protocol (it may end
// inside a path).
func c17WellFormed(a []int) bool {
	state := aStyling
	for _, l := range a {
		state = c10Step(state, c17ALetters[l].class)
		if state == aError {
			return false
		}
	}
	return true
}

func c17DiffRas(got, want []rec.RCall) string {
	n := len(got)
	if len(want) < n {
		n = len(want)
	}
	for i := 0; i < n; i++ {
		if !got[i].EqualGeom(&want[i]) {
			return fmt.Sprintf("rasteriser call %d is %s, fresh objects give %s", i, got[i], want[i])
		}
		if got[i].K == rec.RDraw && !got[i].Paint.Equal(&want[i].Paint) {
			return fmt.Sprintf("paint of Draw %d is %s, fresh objects give %s", i, got[i].Paint, want[i].Paint)
		}
	}
	if len(got) != len(want) {
		return fmt.Sprintf("%d rasteriser calls, fresh objects give %d (%s vs %s)", len(got), len(want), rec.RCallsString(got), rec.RCallsString(want))
	}
	return ""
}

// truncated: every prefix of a corpus file decoded into a Renderer / Encoder, then B.
func (st *c17State) truncated(f gen.File) {
	step := 1
	if !st.w.Thorough && len(f.Data) > 400 {
		step = 3
	}
	for cut := 0; cut <= len(f.Data); cut += step {
		if st.w.Expired() {
			return
		}
		st.truncatedOne(f, cut)
	}
}

func (st *c17State) truncatedOne(f gen.File, cut int) {
	w := st.w
	for pi := range c17Progs {
		w.Eval()
		w.State(1)
		var z render.Renderer
		var ras rec.Raster
		z.SetRasterizer(&ras, c17Rect)
		decode.Decode(&z, f.Data[:cut])
		ras.ResetLog()
		st.renB(&z, pi)
		cs := c17Case{B: pi, Kind: "renderer-truncated", File: f.Name, Cut: cut}
		if d := c17DiffRas(ras.Calls, st.freshRas[pi]); d != "" {
			w.Fail("renderer-reuse-after-truncated-decode:"+c17Progs[pi].name, fmt.Sprintf("Renderer after decoding the first %d bytes of %s; program %q: %s", cut, f.Name, c17Progs[pi].name, d), cs)
		}
		e := &encode.Encoder{}
		decode.Decode(e, f.Data[:cut])
		got := st.encB(e, pi, 0)
		if !bytes.Equal(got, st.freshEnc[pi][0]) {
			w.Fail("encoder-reuse-after-truncated-decode:"+c17Progs[pi].name, fmt.Sprintf("Encoder after decoding the first %d bytes of %s; Reset; program %q yields %x, fresh %x", cut, f.Name, c17Progs[pi].name, got, st.freshEnc[pi][0]), cs)
		}
		h := mc.NewHasher()
		h.Str(f.Name)
		h.U32(uint32(cut))
		w.Outcome(h.Sum(), cut > 8)
	}
}
