package props

import (
	"encoding/json"
	"fmt"
	"image"
	"image/color"
	"math"

	"github.com/reactivego/ivg"
	"github.com/reactivego/ivg/decode"
	"github.com/reactivego/ivg/encode"
	"github.com/reactivego/ivg/generate"
	"github.com/reactivego/ivg/render"
	"verif/mc"
	"verif/rec"
	"verif/ref"
)

// C19 — Generator gradient helpers.

type c19Case struct {
	Kind   int       `json:"kind"` // 0 general, 1 linear, 2 circular, 3 elliptical
	G      [6]uint32 `json:"geometry_bits"`
	Spread int       `json:"spread"`
	NStops int       `json:"nstops"`
	Model  int       `json:"colour_model"`
	CSel   int       `json:"csel"`
	NSel   int       `json:"nsel"`
	ByIncr bool      `json:"selectors_reached_by_increment"`
	Zero   bool      `json:"increments_write_zero,omitempty"` // with ByIncr: two incrementing writes of zero values each
	Dest   int       `json:"dest"`                            // 0 Renderer, 1 Encoder
	Desc   string    `json:"desc,omitempty"`
}

var c19Lens = []int{0, 1, 2, 3, 57, 58, 59, 63, 64, 65, 255, 256, 257, 300}

func c19LensFor(tier string) []int {
	if tier == "never" {
		return c19Lens
	}
	var l []int
	for i := 0; i <= 300; i++ {
		l = append(l, i)
	}
	return l
}

// geometries: kind + 6 parameters
type c19Geom struct {
	kind int
	p    [6]float32
}

func c19Geoms() []c19Geom {
	var gs []c19Geom
	mags := []float32{1.0 / 64, 1, 37.5, 1024, 65536}
	dirs := [][2]float32{{1, 0}, {0, 1}, {0.6, 0.8}, {-0.8, 0.6}, {1, 1}, {-3, 0.5}}
	for _, mg := range mags {
		for _, d := range dirs {
			for _, o := range [][2]float32{{0, 0}, {-7.5, 3}, {100, -200}} {
				gs = append(gs, c19Geom{1, [6]float32{o[0], o[1], o[0] + d[0]*mg, o[1] + d[1]*mg}})
				gs = append(gs, c19Geom{2, [6]float32{o[0], o[1], d[0] * mg, d[1] * mg}})
				gs = append(gs, c19Geom{3, [6]float32{o[0], o[1], d[0] * mg, d[1] * mg, -d[1] * mg / 2, d[0] * mg / 2}})
				gs = append(gs, c19Geom{3, [6]float32{o[0], o[1], d[0] * mg, d[1] * mg, (d[0] - d[1]) * mg, (d[0] + d[1]) * mg * 0.75}})
			}
		}
	}
	for _, m := range c15GenMats {
		gs = append(gs, c19Geom{0, m})
	}
	for _, m := range c15ExactMats {
		gs = append(gs, c19Geom{0, m})
	}
	return gs
}

type weird struct{ r, g, b, a uint32 }

func (w weird) RGBA() (uint32, uint32, uint32, uint32) { return w.r, w.g, w.b, w.a }

func c19Color(model, i, n int) color.Color {
	if model == 0 && n%5 == 2 {
		return color.RGBA{0x20, 0x90, 0x40, 0xc0} // every stop of one colour
	}
	a := uint8(255 - (i*7)%200)
	v := uint8((i * 37) % 256)
	switch model {
	case 0:
		return color.RGBA{v % (a/2 + 1), a / 2, a, a}
	case 1:
		return color.NRGBA{v, 255 - v, 0x80, a}
	case 2:
		return color.Gray16{uint16(v)<<8 | 0x7f}
	default:
		return color.RGBA64{uint16(v) << 7, 0x1234, uint16(a) << 8, 0xffff}
	}
}

func c19Stops(n, model int) []generate.GradientStop {
	st := make([]generate.GradientStop, n)
	for i := range st {
		off := float32(0)
		if n > 1 {
			off = float32(i) / float32(n-1)
			if model%2 == 1 {
				off = 0.25 + off/2 // first stop above 0, last below 1
			}
			if model == 2 && n%7 == 3 && i == 1 {
				off = 1.0 / (1 << 21) // a hard edge: 5e-7 above the first stop
			}
		}
		st[i] = generate.GradientStop{Offset: off, Color: c19Color(model, i, n)}
	}
	return st
}

func init() {
	mc.Register(&mc.Check{
		ID:    "C19",
		Level: "exploration",
		Rule: "engine P x short S prefix: (A) every prior selector state CSEL in 0..63 x NSEL in {0,1,5,6,9,10,31,32,57,58,62,63} (thorough: 0..63), reached by SetCSel/SetNSel, by an incrementing write from the predecessor (incl. the wrap 63->0) and by two incrementing writes of zero values, x every stop-list length 0..300 x 4 colour models x destinations {Renderer, Encoder}; " +
			"(B) 300 geometries (linear, circular, two elliptical families over magnitudes 2^-6..2^10, 6 directions, 3 origins; 12 general matrices) x 4 spreads x {2,3,4,17,33,58} (thorough 12 counts) stops x both destinations, from selector states (CSEL,NSEL) in {5,62,0,33} x {63,3,0,40} by geometry. Oracle: documented errors (and no mutating call) exactly for >58 stops or CSEL inside the stop range judged on the true selector; otherwise the first write is the gradient value naming CBASE/NBASE/NSTOPS/shape/spread, " +
			"replaying the writes on the specification VM puts colours (RGBAModel conversion), offsets and the six matrix entries where that value says, CSEL/NSEL are restored, the same stops slice passed again (after a Reset; after its contents changed) is stored again, and the paint reaching the rasteriser has the given stops/spread/shape, paints the colours they interpolate to on a 16x8 pixel grid, and has a transform that realises the geometry (0 at (x1,y1), 1 at (x2,y2), constant along perpendiculars; 0 at the centre and distance 1 at the radius/axis end points; the given matrix). " +
			"distinct = (error class, kind, dest, nstops class); non-trivial = helper call that writes registers",
		Assumptions: []string{"geometric tolerance 2^-18 relative to the sum of the magnitudes of the terms of the affine form", "Encoder route: register values compared under the C01 number tolerance after decoding"},
		Units:       func(tier string) int { return 64 + len(c19Geoms()) },
		Run: func(w *mc.W, u int) {
			if u < 64 {
				nsels := []int{0, 1, 5, 6, 9, 10, 31, 32, 57, 58, 62, 63}
				if w.Thorough {
					nsels = nsels[:0]
					for i := 0; i < 64; i++ {
						nsels = append(nsels, i)
					}
				}
				for _, nsel := range nsels {
					for _, n := range c19LensFor(w.Tier) {
						if w.Expired() {
							return
						}
						for model := 0; model < 4; model++ {
							if !w.Thorough && n > 65 && n%16 != 0 && model > 0 {
								continue
							}
							for by := 0; by < 3; by++ {
								for dest := 0; dest < 2; dest++ {
									cs := c19Case{Kind: 1 + (n+model)%3, Spread: (n + u) % 4, NStops: n, Model: model, CSel: u, NSel: nsel, ByIncr: by > 0, Zero: by == 2, Dest: dest}
									g := c19Geoms()[(n*4+model)%24]
									cs.Kind = g.kind
									for i := range g.p {
										cs.G[i] = f32b(g.p[i])
									}
									c19Check(w, &cs)
								}
							}
						}
					}
				}
				return
			}
			g := c19Geoms()[u-64]
			for spread := 0; spread < 4; spread++ {
				ns := []int{2, 3, 4, 17, 33, 58}
				if w.Thorough {
					ns = []int{2, 3, 4, 8, 9, 10, 16, 17, 32, 33, 57, 58}
				}
				for _, n := range ns {
					for dest := 0; dest < 2; dest++ {
						cs := c19Case{Kind: g.kind, Spread: spread, NStops: n, Model: (spread + n) % 4, CSel: []int{5, 62, 0, 33}[u%4], NSel: []int{63, 3, 0, 40}[u/4%4], ByIncr: spread%2 == 1, Dest: dest}
						for i := range g.p {
							cs.G[i] = f32b(g.p[i])
						}
						c19Check(w, &cs)
					}
				}
			}
		},
		Replay: func(w *mc.W, data json.RawMessage) error {
			var cs c19Case
			if err := unmarshalCase(data, &cs); err != nil {
				return err
			}
			c19Check(w, &cs)
			return nil
		},
		Post: postDistinct(12),
	})
}

var c19VB = ivg.ViewBox{MinX: -32, MinY: -16, MaxX: 32, MaxY: 48}
var c19Rect = image.Rect(3, 4, 67, 36) // scale 1 and 1/2

func c19Check(w *mc.W, cs *c19Case) {
	w.Eval()
	var p [6]float32
	for i := range p {
		p[i] = b32f(cs.G[i])
	}
	kinds := []string{"SetGradient", "SetLinearGradient", "SetCircularGradient", "SetEllipticalGradient"}
	desc := fmt.Sprintf("%s%v spread %d, %d stops (colour model %d), prior CSEL=%d NSEL=%d (by increment: %v), destination %s", kinds[cs.Kind], p, cs.Spread, cs.NStops, cs.Model, cs.CSel, cs.NSel, cs.ByIncr, []string{"Renderer", "Encoder"}[cs.Dest])
	fail := func(key, what string) {
		c := *cs
		c.Desc = desc
		w.Fail(key, desc+": "+what, c)
	}
	// destination chain
	var z render.Renderer
	var ras rec.Raster
	var e encode.Encoder
	z.SetRasterizer(&ras, c19Rect)
	var real ivg.Destination = &z
	if cs.Dest == 1 {
		real = &e
	}
	rd := &rec.Dest{Next: real, NoPal: true}
	var g generate.Generator
	g.SetDestination(rd)
	if cs.CSel%2 == 1 {
		// a path-data transform is configured on the same Generator: the gradient geometry is
		// given in viewBox coordinates all the same
		g.SetTransform(generate.Scale(2, 0.5), generate.Translate(3, -4))
	}
	g.Reset(c19VB, ivg.DefaultPalette)
	if cs.Dest == 1 {
		e.HighResolutionCoordinates = true
	}
	// reach the prior selector state
	if cs.ByIncr && cs.Zero {
		g.SetCSel(uint8(cs.CSel-2) & 63)
		g.SetCReg(0, true, rgba(0, 0, 0, 0))
		g.SetCReg(0, true, rgba(0, 0, 0, 0xff))
		g.SetNSel(uint8(cs.NSel-2) & 63)
		g.SetNReg(0, true, 0)
		g.SetNReg(0, true, 0)
	} else if cs.ByIncr {
		g.SetCSel(uint8(cs.CSel-1) & 63)
		g.SetCReg(0, true, rgba(1, 2, 3, 0xff))
		g.SetNSel(uint8(cs.NSel-1) & 63)
		g.SetNReg(0, true, 0.5)
	} else {
		g.SetCSel(uint8(cs.CSel))
		g.SetNSel(uint8(cs.NSel))
	}
	var vm ref.VM
	vm.Reset(ivg.DefaultPalette)
	mirror := func(calls []rec.Call) {
		for i := range calls {
			c := &calls[i]
			switch c.M {
			case rec.MSetCSel:
				vm.SetCSel(c.Adj)
			case rec.MSetNSel:
				vm.SetNSel(c.Adj)
			case rec.MSetCReg:
				k, d := rec.ColorParts(c.C)
				vm.SetCReg(c.Adj, c.Incr, ref.Color{Kind: k, D: d})
			case rec.MSetNReg:
				vm.SetNReg(c.Adj, c.Incr, c.A[0])
			}
		}
	}
	mirror(rd.Calls)
	if int(vm.CSel) != cs.CSel || int(vm.NSel) != cs.NSel {
		w.HarnessError("selector state not reached: %d/%d", vm.CSel, vm.NSel)
		return
	}
	stops := c19Stops(cs.NStops, cs.Model)
	spread := generate.GradientSpread(cs.Spread)
	shape := 1
	switch cs.Kind {
	case 0:
		shape = cs.Spread % 2
	case 1:
		shape = 0
	}
	call := func(stops []generate.GradientStop) error {
		switch cs.Kind {
		case 0:
			return g.SetGradient(generate.GradientShape(shape), spread, stops, generate.Aff3(p))
		case 1:
			return g.SetLinearGradient(p[0], p[1], p[2], p[3], spread, stops)
		case 2:
			return g.SetCircularGradient(p[0], p[1], p[2], p[3], spread, stops)
		}
		return g.SetEllipticalGradient(p[0], p[1], p[2], p[3], p[4], p[5], spread, stops)
	}
	if cs.CSel%4 >= 2 {
		// the same Generator issued the same call for another destination just before
		var other rec.Dest
		g.SetDestination(&other)
		g.Reset(c19VB, ivg.DefaultPalette)
		call(stops)
		g.SetDestination(rd)
	}
	n0 := len(rd.Calls)
	err := call(stops)
	newCalls := rd.Calls[n0:]
	// expected outcome class
	var wantErr error
	inRange := false
	for i := 0; i < cs.NStops && i < 64; i++ {
		if (10+i)&63 == cs.CSel {
			inRange = true
		}
	}
	switch {
	case cs.NStops > 58:
		wantErr = generate.TooManyGradientStops
	case inRange:
		wantErr = generate.CSELUsedAsBothGradientAndStop
	}
	h := mc.NewHasher()
	h.Byte(byte(cs.Kind))
	h.Byte(byte(cs.Dest))
	if wantErr != nil {
		if err != wantErr {
			cls := "too-many-stops"
			if wantErr == generate.CSELUsedAsBothGradientAndStop {
				cls = "csel-in-stop-range"
			}
			if cs.NStops >= 256 {
				cls += ":>=256-stops"
			}
			fail("missing-error:"+cls, fmt.Sprintf("expected error %q, helper returned %v and made %d calls", wantErr, err, len(newCalls)))
			return
		}
		if len(newCalls) != 0 {
			fail("writes-before-error", fmt.Sprintf("helper returned %v after %d mutating calls: %s", err, len(newCalls), rec.CallsString(newCalls)))
			return
		}
		h.Str(wantErr.Error())
		w.Outcome(h.Sum(), false)
		return
	}
	if err != nil {
		fail("spurious-error", fmt.Sprintf("helper returned %v", err))
		return
	}
	if len(newCalls) == 0 || newCalls[0].M != rec.MSetCReg || newCalls[0].Adj != 0 || newCalls[0].Incr {
		fail("first-write", "the first write must be the gradient value into CREG[CSEL]: "+rec.CallsString(newCalls))
		return
	}
	k, gv := rec.ColorParts(newCalls[0].C)
	if k != rec.KRGBA || !ref.IsGradient(gv) {
		fail("first-write", "the first write is not a gradient value: "+newCalls[0].String())
		return
	}
	nstops, cbase, nbase := int(gv.R&63), gv.G&63, gv.B&63
	if nstops != cs.NStops || int(gv.G>>6) != cs.Spread || int(gv.B>>6)&1 != shape || gv.R>>6 != 0 {
		fail("gradient-value-fields", fmt.Sprintf("gradient value %v names NSTOPS=%d spread=%d shape=%d, requested %d/%d/%d", gv, nstops, gv.G>>6, (gv.B>>6)&1, cs.NStops, cs.Spread, shape))
		return
	}
	// the register file the decoding machine will hold
	if cs.Dest == 0 {
		mirror(newCalls)
	} else {
		bs, berr := e.Bytes()
		if berr != nil {
			fail("encoder-error", berr.Error())
			return
		}
		var rd2 rec.Dest
		if derr := decode.Decode(&rd2, bs); derr != nil {
			fail("decode-error", derr.Error())
			return
		}
		vm.Reset(ivg.DefaultPalette)
		mirror(rd2.Calls)
	}
	if int(vm.CSel) != cs.CSel || int(vm.NSel) != cs.NSel {
		fail("selectors-not-restored", fmt.Sprintf("CSEL/NSEL are %d/%d after the helper, were %d/%d", vm.CSel, vm.NSel, cs.CSel, cs.NSel))
		return
	}
	if vm.CReg[cs.CSel] != gv {
		fail("gradient-register", fmt.Sprintf("CREG[CSEL=%d] holds %v, the gradient value is %v", cs.CSel, vm.CReg[cs.CSel], gv))
		return
	}
	for i, s := range stops {
		want := color.RGBAModel.Convert(s.Color).(color.RGBA)
		if got := vm.CReg[(cbase+uint8(i))&63]; got != want {
			fail("stop-colour-register", fmt.Sprintf("stop %d colour %v should be in CREG[CBASE+%d] as %v, register holds %v", i, s.Color, i, want, got))
			return
		}
		got := vm.NReg[(nbase+uint8(i))&63]
		if (cs.Dest == 0 && f32b(got) != f32b(s.Offset)) || (cs.Dest == 1 && cmpNReg(s.Offset, got) != "") {
			fail("stop-offset-register", fmt.Sprintf("stop %d offset %g should be in NREG[NBASE+%d], register holds %g", i, s.Offset, i, got))
			return
		}
	}
	var M [6]float64 // viewBox -> gradient as stored
	for i := 0; i < 6; i++ {
		M[i] = float64(vm.NReg[(nbase-6+uint8(i))&63])
	}
	if cs.Kind == 0 {
		// the general form stores the matrix it is given, all six entries, whatever the shape
		for i := 0; i < 6; i++ {
			got := vm.NReg[(nbase-6+uint8(i))&63]
			if (cs.Dest == 0 && f32b(got) != f32b(p[i]) && !(got == 0 && p[i] == 0)) || (cs.Dest == 1 && cmpNReg(p[i], got) != "") {
				fail("general-form:matrix-register", fmt.Sprintf("matrix entry %d given as %g, NREG[NBASE-%d] holds %g", i, p[i], 6-i, got))
				return
			}
		}
	}
	// geometry of the stored matrix and of the paint
	judge := func(where string, m [6]float64, toVB func(x, y float64) (float64, float64)) bool {
		apply := func(x, y float64) (gx, gy, mag float64) {
			x, y = toVB(x, y)
			gx = m[0]*x + m[1]*y + m[2]
			gy = m[3]*x + m[4]*y + m[5]
			mag = math.Abs(m[0]*x) + math.Abs(m[1]*y) + math.Abs(m[2]) + math.Abs(m[3]*x) + math.Abs(m[4]*y) + math.Abs(m[5])
			return
		}
		tol := math.Ldexp(1, -18)
		near := func(got, want, mag float64) bool { return math.Abs(got-want) <= tol*(mag+math.Abs(want)) }
		P := [6]float64{float64(p[0]), float64(p[1]), float64(p[2]), float64(p[3]), float64(p[4]), float64(p[5])}
		switch cs.Kind {
		case 0:
			for i := 0; i < 6; i++ {
				if shape == 0 && i >= 3 {
					break
				}
				// compare through evaluation at the unit points
			}
			for _, pt := range [][2]float64{{0, 0}, {1, 0}, {0, 1}, {-17, 29}} {
				gx, gy, mag := apply(pt[0], pt[1])
				wx := P[0]*pt[0] + P[1]*pt[1] + P[2]
				wy := P[3]*pt[0] + P[4]*pt[1] + P[5]
				if !near(gx, wx, mag) || (shape == 1 && !near(gy, wy, mag)) {
					fail("geometry:general:"+where, fmt.Sprintf("%s maps (%g,%g) to (%g,%g), the given matrix to (%g,%g)", where, pt[0], pt[1], gx, gy, wx, wy))
					return false
				}
			}
		case 1:
			g1, _, m1 := apply(P[0], P[1])
			g2, _, m2 := apply(P[2], P[3])
			dx, dy := P[2]-P[0], P[3]-P[1]
			g3, _, m3 := apply(P[0]-dy, P[1]+dx) // along the perpendicular through (x1,y1)
			g4, _, m4 := apply(P[2]+2*dy, P[3]-2*dx)
			if !near(g1, 0, m1) || !near(g2, 1, m2) || !near(g3, 0, m3) || !near(g4, 1, m4) {
				fail("geometry:linear:"+where, fmt.Sprintf("%s gives offsets %g at (x1,y1), %g at (x2,y2), %g and %g on the perpendiculars (want 0, 1, 0, 1)", where, g1, g2, g3, g4))
				return false
			}
		case 2:
			gx, gy, m0 := apply(P[0], P[1])
			hx, hy, m1 := apply(P[0]+P[2], P[1]+P[3])
			ix, iy, m2 := apply(P[0]-P[3], P[1]+P[2]) // radius vector rotated by 90 degrees
			if !near(math.Hypot(gx, gy), 0, m0) || !near(math.Hypot(hx, hy), 1, m1) || !near(math.Hypot(ix, iy), 1, m2) {
				fail("geometry:circular:"+where, fmt.Sprintf("%s gives distance %g at the centre, %g at centre+radius, %g at centre+rotated radius (want 0, 1, 1)", where, math.Hypot(gx, gy), math.Hypot(hx, hy), math.Hypot(ix, iy)))
				return false
			}
		case 3:
			gx, gy, m0 := apply(P[0], P[1])
			hx, hy, m1 := apply(P[0]+P[2], P[1]+P[3])
			ix, iy, m2 := apply(P[0]+P[4], P[1]+P[5])
			if !near(math.Hypot(gx, gy), 0, m0) || !near(math.Hypot(hx, hy), 1, m1) || !near(math.Hypot(ix, iy), 1, m2) {
				fail("geometry:elliptical:"+where, fmt.Sprintf("%s gives distance %g at the centre, %g and %g at the axis end points (want 0, 1, 1)", where, math.Hypot(gx, gy), math.Hypot(hx, hy), math.Hypot(ix, iy)))
				return false
			}
		}
		return true
	}
	if !judge("the matrix in NREG[NBASE-6..NBASE-1]", M, func(x, y float64) (float64, float64) { return x, y }) {
		return
	}
	// render a probe path filled with CREG[CSEL]
	if cs.NStops >= 2 {
		probe := func(d ivg.Destination) {
			d.StartPath(0, -30, -10)
			d.AbsLineTo(30, -10)
			d.AbsLineTo(0, 40)
			d.ClosePathEndPath()
		}
		ras.ResetLog()
		if cs.Dest == 0 {
			probe(&z)
		} else {
			probe(&e)
			bs, _ := e.Bytes()
			if derr := decode.Decode(&z, bs); derr != nil {
				fail("decode-error", derr.Error())
				return
			}
		}
		var paint *rec.Paint
		var sp image.Point
		for i := range ras.Calls {
			if ras.Calls[i].K == rec.RDraw {
				paint, sp = &ras.Calls[i].Paint, ras.Calls[i].SP
			}
		}
		if paint != nil && paint.Kind == 1 && cs.Model == 0 && cs.NStops%5 == 2 && paint.FlatOK && paint.Flat8 == (color.RGBA{0x20, 0x90, 0x40, 0xc0}) {
			// every stop has this colour: a uniform paint is the same picture - unless the spread
			// is none and some pixel lies outside [0,1], where nothing is to be painted
			if cs.Spread == 0 {
				sx := float64(c19Rect.Dx()) / float64(c19VB.MaxX-c19VB.MinX)
				sy := float64(c19Rect.Dy()) / float64(c19VB.MaxY-c19VB.MinY)
				for py := 0; py < c19Rect.Dy(); py += 4 {
					for px := 0; px < c19Rect.Dx(); px += 4 {
						x, y := (float64(px)+0.5)/sx+float64(c19VB.MinX), (float64(py)+0.5)/sy+float64(c19VB.MinY)
						o := M[0]*x + M[1]*y + M[2]
						if shape == 1 {
							o = math.Hypot(o, M[3]*x+M[4]*y+M[5])
						}
						if o < -1e-6 || o > 1+1e-6 {
							fail("paint:uniform-under-spread-none", fmt.Sprintf("all stops have one colour and the path is painted uniformly, but pixel (%d,%d) has offset %g and spread none paints nothing there", px, py, o))
							return
						}
					}
				}
			}
		} else {
			if paint == nil || paint.Kind != 2 {
				fail("paint:not-a-gradient", fmt.Sprintf("probe path filled with CREG[CSEL] reached the rasteriser as %v", paint))
				return
			}
			ok := paint.Shape == shape && paint.Spread == cs.Spread && len(paint.Colors) == len(stops)
			if ok {
				for i, s := range stops {
					want := color.RGBAModel.Convert(s.Color).(color.RGBA)
					if paint.Colors[i] != want || (cs.Dest == 0 && paint.Offsets[i] != float64(s.Offset)) || (cs.Dest == 1 && cmpNReg(s.Offset, float32(paint.Offsets[i])) != "") {
						ok = false
					}
				}
			}
			if !ok {
				fail("paint:stops", fmt.Sprintf("paint has shape %d spread %d colours %v offsets %v; requested shape %d spread %d stops %v", paint.Shape, paint.Spread, paint.Colors, paint.Offsets, shape, cs.Spread, stops))
				return
			}
			// judged in rectangle-relative pixel space, whatever source point Draw was given
			paint.M[2] += paint.M[0]*float64(sp.X) + paint.M[1]*float64(sp.Y)
			paint.M[5] += paint.M[3]*float64(sp.X) + paint.M[4]*float64(sp.Y)
			sx := float64(c19Rect.Dx()) / float64(c19VB.MaxX-c19VB.MinX)
			sy := float64(c19Rect.Dy()) / float64(c19VB.MaxY-c19VB.MinY)
			// Transform() is pixel -> gradient: pull back through the pixel map
			if !judge("the paint's Transform pulled back through the pixel map", paint.M, func(x, y float64) (float64, float64) {
				return (x - float64(c19VB.MinX)) * sx, (y - float64(c19VB.MinY)) * sy
			}) {
				return
			}
			// the stops given are the ones rendered: the paint evaluated on a pixel grid (every
			// stop count 2..58 at one selector state, and every geometry of part B)
			if cs.CSel == 5 {
				rst := make([]ref.Stop, len(stops))
				for i := range rst {
					rst[i] = ref.Stop{Offset: paint.Offsets[i], Color: paint.Colors[i]}
				}
				pm := paint.M
				for py := 0; py < c19Rect.Dy(); py += 4 {
					for px := 0; px < c19Rect.Dx(); px += 4 {
						cx, cy := float64(px)+0.5, float64(py)+0.5
						o := pm[0]*cx + pm[1]*cy + pm[2]
						if shape == 1 {
							o = math.Hypot(o, pm[3]*cx+pm[4]*cy+pm[5])
						}
						if math.IsNaN(o) || math.IsInf(o, 0) || ref.NearDiscontinuity(cs.Spread, o, 1e-9) {
							w.Skip()
							continue
						}
						w.EvalN(1)
						r, g, b, a := paint.Img.At(px+sp.X, py+sp.Y).RGBA()
						got := [4]float64{float64(r), float64(g), float64(b), float64(a)}
						var want [4]float64
						if so, visible := ref.SpreadOffset(cs.Spread, o); visible {
							want, _ = ref.GradColor(rst, so)
						}
						for k := 0; k < 4; k++ {
							if math.Abs(got[k]-want[k]) > 1+1e-6 {
								fail("paint:rendered-colour", fmt.Sprintf("pixel (%d,%d) has offset %g: painted %v, the stops give %v", px, py, o, got, want))
								return
							}
						}
					}
				}
			}
			// (b) the raster is configured anew with another rectangle and the probe is painted again,
			// no register written in between: the paint's transform follows the new pixel scale
			if cs.Dest == 0 && cs.CSel%2 == 0 {
				r2 := image.Rect(1, 2, 1+c19Rect.Dy()+9, 2+c19Rect.Dx()+3)
				z.SetRasterizer(&ras, r2)
				ras.ResetLog()
				probe(&z)
				var p2 *rec.Paint
				var sp2 image.Point
				for i := range ras.Calls {
					if ras.Calls[i].K == rec.RDraw {
						p2, sp2 = &ras.Calls[i].Paint, ras.Calls[i].SP
					}
				}
				if p2 == nil || p2.Kind != 2 {
					fail("repaint:not-a-gradient", fmt.Sprintf("after SetRasterizer(%v) the probe path reached the rasteriser as %v", r2, p2))
					return
				}
				p2.M[2] += p2.M[0]*float64(sp2.X) + p2.M[1]*float64(sp2.Y)
				p2.M[5] += p2.M[3]*float64(sp2.X) + p2.M[4]*float64(sp2.Y)
				sx2 := float64(r2.Dx()) / float64(c19VB.MaxX-c19VB.MinX)
				sy2 := float64(r2.Dy()) / float64(c19VB.MaxY-c19VB.MinY)
				if !judge("the paint's Transform after SetRasterizer with another rectangle, pulled back through the new pixel map", p2.M, func(x, y float64) (float64, float64) {
					return (x - float64(c19VB.MinX)) * sx2, (y - float64(c19VB.MinY)) * sy2
				}) {
					return
				}
				z.SetRasterizer(&ras, c19Rect)
			}
		}
	}
	// One Generator, two graphics: the same stops slice is passed again after a Reset, and then
	// once more, without a Reset, after its contents changed. Each time the registers the
	// gradient value names must hold the stops as they are at the call.
	if cs.NStops >= 1 && cs.CSel%8 == 5 {
		wantCSel, wantNSel := cs.CSel, cs.NSel
		for round := 2; round <= 4; round++ {
			n1 := len(rd.Calls)
			switch round {
			case 2:
				g.Reset(c19VB, ivg.DefaultPalette)
				if cs.NSel%2 == 1 && cs.CSel < 10 && cs.NStops < 55 {
					// no explicit selector writes: after Reset both selectors are 0, whatever they were before
					wantCSel, wantNSel = 0, 0
				} else {
					g.SetCSel(uint8(cs.CSel))
					g.SetNSel(uint8(cs.NSel))
				}
			case 3:
				for i := range stops {
					stops[i].Color = c19Color((cs.Model+1)%4, i+3, len(stops))
				}
			default:
				// the caller overwrote the six matrix registers and a stop in between (through the
				// Generator's own Destination methods), then asks for the same gradient again
				g.SetNSel(4)
				for i := 0; i < 7; i++ {
					g.SetNReg(0, true, 100+float32(i))
				}
				g.SetCSel(10)
				g.SetCReg(0, false, rgba(9, 9, 9, 9))
				g.SetCSel(uint8(cs.CSel))
				g.SetNSel(uint8(cs.NSel))
				wantCSel, wantNSel = cs.CSel, cs.NSel
				n1 = len(rd.Calls)
			}
			if rerr := call(stops); rerr != nil {
				fail("repeat:spurious-error", fmt.Sprintf("call %d with the same stops slice returned %v", round, rerr))
				return
			}
			var vm2 ref.VM
			vm2.Reset(ivg.DefaultPalette)
			from := n1
			if round >= 3 {
				from = 0
				for i := n1 - 1; i >= 0; i-- {
					if rd.Calls[i].M == rec.MReset {
						from = i
						break
					}
				}
			}
			keep := vm
			vm = vm2
			mirror(rd.Calls[from:])
			vm2, vm = vm, keep
			first := n1
			if round == 2 {
				first = n1 + 1 // after Reset ...
				if wantCSel == cs.CSel && wantNSel == cs.NSel && !(cs.NSel%2 == 1 && cs.CSel < 10 && cs.NStops < 55) {
					first = n1 + 3 // ... and the two selector writes
				}
			}
			k2, gv2 := rec.ColorParts(rd.Calls[first].C)
			if k2 != rec.KRGBA || !ref.IsGradient(gv2) || vm2.CReg[wantCSel] != gv2 || int(vm2.CSel) != wantCSel || int(vm2.NSel) != wantNSel {
				fail("repeat:gradient-register", fmt.Sprintf("call %d: CREG[CSEL=%d] holds %v, selectors %d/%d (expected %d/%d); calls: %s", round, wantCSel, vm2.CReg[wantCSel], vm2.CSel, vm2.NSel, wantCSel, wantNSel, rec.CallsString(rd.Calls[n1:])))
				return
			}
			cb, nb := gv2.G&63, gv2.B&63
			for i, st := range stops {
				want := color.RGBAModel.Convert(st.Color).(color.RGBA)
				if got := vm2.CReg[(cb+uint8(i))&63]; got != want {
					fail("repeat:stop-colour-register", fmt.Sprintf("call %d with the same stops slice (round 2: after Reset; round 3: contents changed): stop %d colour should be %v, CREG[CBASE+%d] holds %v", round, i, want, i, got))
					return
				}
				if got := vm2.NReg[(nb+uint8(i))&63]; f32b(got) != f32b(st.Offset) {
					fail("repeat:stop-offset-register", fmt.Sprintf("call %d with the same stops slice: stop %d offset should be %g, NREG[NBASE+%d] holds %g", round, i, st.Offset, i, got))
					return
				}
			}
			for i := 1; i <= 6; i++ {
				if a, b := vm2.NReg[(nb-uint8(i))&63], float32(M[6-i]); cs.Dest == 0 && f32b(a) != f32b(b) && !(a == 0 && b == 0) {
					fail("repeat:matrix-register", fmt.Sprintf("call %d: matrix register NREG[NBASE-%d] holds %g, the first call stored %g", round, i, a, b))
					return
				}
			}
		}
	}
	h.Byte(byte(cs.NStops))
	h.Bool(cs.ByIncr)
	w.Outcome(h.Sum(), true)
	if w.WantSample() && cs.NStops == 3 {
		w.Sample(map[string]any{"case": desc, "calls": rec.CallsString(newCalls)})
	}
}
