// Package props holds one file per property: alphabet, bound, oracle.
package props

import (
	"encoding/json"
	"fmt"
	"math"

	"verif/mc"
)

func f32b(f float32) uint32     { return math.Float32bits(f) }
func b32f(u uint32) float32     { return math.Float32frombits(u) }
func isFinite32(f float32) bool { return !math.IsNaN(float64(f)) && !math.IsInf(float64(f), 0) }

func unmarshalCase(data json.RawMessage, v any) error {
	if err := json.Unmarshal(data, v); err != nil {
		return fmt.Errorf("bad case: %v", err)
	}
	return nil
}

func constUnits(quick, thorough int) func(string) int {
	return func(tier string) int {
		if tier == "thorough" {
			return thorough
		}
		return quick
	}
}

func postDistinct(min int64) func(string, *mc.Result) string {
	return func(tier string, m *mc.Result) string {
		if m.DistinctAll < min {
			return fmt.Sprintf("only %d distinct outcomes observed (want >= %d): the enumeration is vacuous", m.DistinctAll, min)
		}
		if m.Evaluations == 0 {
			return "no evaluations"
		}
		return ""
	}
}

// ulp32 returns the unit in the last place of float32 at magnitude |x|.
func ulp32(x float64) float64 {
	x = math.Abs(x)
	if x < 1.1754943508222875e-38 {
		return 1.401298464324817e-45
	}
	e := math.Floor(math.Log2(x))
	return math.Ldexp(1, int(e)-23)
}
