package props

import (
	"encoding/json"
	"os"
	"path/filepath"
	"testing"
	"time"

	"verif/mc"
)

// Plain unit tests that replay recorded counterexamples without the explorer.
//
//	go test ./props -run TestRegressions   the original counterexamples of the defects that were
//	                                       repaired (/verif/regressions): must NOT violate any more
//	go test ./props -run TestOpenReplays   violations recorded by a check run (/verif/replays):
//	                                       fail while the violation is still there
//
// (GOFLAGS=-mod=mod GOPROXY=off GOSUMDB=off; C08 cases that use the unexported codecs need
// `-tags verif -overlay .bin/overlay.json`, C18 schedule cases the instrumented build.)
func replayDir(t *testing.T, dir string, wantViolation bool) {
	root := os.Getenv("VERIF_ROOT")
	if root == "" {
		root = ".."
	}
	files, _ := filepath.Glob(filepath.Join(root, dir, "*.json"))
	for _, f := range files {
		b, err := os.ReadFile(f)
		if err != nil {
			t.Fatal(err)
		}
		var v mc.Violation
		if err := json.Unmarshal(b, &v); err != nil {
			t.Fatalf("%s: %v", f, err)
		}
		c := mc.Lookup(v.Property)
		if c == nil || c.Replay == nil {
			t.Fatalf("%s: no replay for %s", f, v.Property)
		}
		if v.Property == "C18" {
			continue // needs the instrumented binary: ./check.sh replay <file>
		}
		w := mc.NewW(v.Property, "quick", 0, time.Time{})
		w.Replaying = true
		if err := c.Replay(w, v.Case); err != nil {
			t.Fatalf("%s: %v", f, err)
		}
		vs := w.Violations()
		if wantViolation && len(vs) == 0 {
			t.Logf("%s: recorded violation %q no longer reproduces", filepath.Base(f), v.Key)
		}
		if !wantViolation && len(vs) > 0 {
			t.Errorf("%s: repaired defect is back: %s: %s", filepath.Base(f), vs[0].Key, vs[0].What)
		}
		if wantViolation && len(vs) > 0 {
			t.Errorf("%s: %s: %s", filepath.Base(f), vs[0].Key, vs[0].What)
		}
	}
	t.Logf("%d files replayed from %s", len(files), dir)
}

func TestRegressions(t *testing.T) { replayDir(t, "regressions", false) }
func TestOpenReplays(t *testing.T) { replayDir(t, "replays", true) }
