package props

import (
	"bytes"
	"fmt"
	"strings"

	"github.com/reactivego/ivg"
	"github.com/reactivego/ivg/decode"
	"verif/gen"
	"verif/mc"
	"verif/rec"
	"verif/ref"
)

// C13 — metadata: defaults, suggested palette, viewBox validation, chunk framing.

var c13UnitsCache = map[string][]gen.Unit{}

func c13Units(tier string) []gen.Unit {
	if u, ok := c13UnitsCache[tier]; ok {
		return u
	}
	var us []gen.Unit
	for _, u := range genUnits("thorough") { // cheap: both tiers use the full enumeration
		n := u.Name
		if strings.HasPrefix(n, "meta/") || n == "magic" || strings.HasPrefix(n, "tiny/") || strings.HasPrefix(n, "corpus/prefix/") ||
			(strings.HasPrefix(n, "corpus/subst/testdata/") && strings.HasSuffix(n, "@0")) {
			us = append(us, u)
		}
	}
	c13UnitsCache[tier] = us
	return us
}

func init() {
	mc.Register(&mc.Check{
		ID:    "C13",
		Level: "exploration",
		Rule: "engine B restricted to the metadata section: chunk counts {0,1,2,3,127,128,2^14,2^30-1} in every width, 15 chunk lists x count mismatches x MID/length widths, 81 viewBox width combinations x 12 value tuples + non-finite values per position, " +
			"all 256 palette header bytes x uniform colour classes x length errors, all 256 one-byte and 65536 two-byte first entries, 3-/4-byte channel sweeps, declared lengths off by -3..+3 and absolute extremes in every width, every truncation point, " +
			"plus every string of <=2/3 bytes after the magic and every prefix of the corpus. Decode's Reset arguments and DecodeViewBox are compared with the reference metadata reading. " +
			"distinct = hash of (accepted, viewBox bits, palette); non-trivial = metadata accepted with at least one chunk present",
		Assumptions: []string{"reference metadata reader /verif/ref written from the specification", "inputs with repeated/descending MIDs are judged by C03, not here"},
		Units:       func(tier string) int { return len(c13Units(tier)) },
		Run: func(w *mc.W, u int) {
			unit := c13Units(w.Tier)[u]
			st := &c13State{}
			st.ps.LenientMIDOrder = true
			hist := &byteHistory
			unit.Each(func(b []byte) bool {
				b = hist.begin(w, b, unit.Name)
				c13Check(w, st, b, unit.Name)
				hist.end(histOK)
				return !w.Expired()
			})
		},
		Replay: bytesReplay(func() func(w *mc.W, b []byte, unit string) {
			st := &c13State{}
			st.ps.LenientMIDOrder = true
			return func(w *mc.W, b []byte, unit string) { c13Check(w, st, b, unit) }
		}),
		Post: postDistinct(50),
	})
}

// c13Canary: the smallest graphic, no metadata chunks, no instructions
var c13Canary = append(append([]byte{}, gen.Magic...), 0x00)

type c13State struct {
	rd, rdc rec.Dest
	ps      ref.Parser
}

func c13Check(w *mc.W, st *c13State, b []byte, unit string) {
	w.Eval()
	p := st.ps.Parse(b)
	setHist(p.MetaOK, p.HasVB, p.HasPal, p.Reason)
	if p.MIDOrder {
		w.Skip()
		return
	}
	st.rd.ResetLog()
	err, pnc, stack := safeDecode(&st.rd, b)
	if pnc != nil {
		w.Fail("panic:"+panicKey(stack), fmt.Sprintf("Decode panicked on %s: %v", hexShort(b), pnc), mkBytesCase(b, unit))
		return
	}
	_ = err
	gotReset := len(st.rd.Calls) > 0
	if gotReset && st.rd.Calls[0].M != rec.MReset {
		w.Fail("first-call-not-reset", fmt.Sprintf("input %s: first call is %s", hexShort(b), st.rd.Calls[0]), mkBytesCase(b, unit))
		return
	}
	switch {
	case p.MetaOK && !gotReset:
		w.Fail("meta-rejected:"+fmt.Sprint(err), fmt.Sprintf("input %s: metadata is valid (viewBox %v) but Decode delivered nothing (%v)", hexShort(b), p.VB, err), mkBytesCase(b, unit))
	case !p.MetaOK && gotReset:
		w.Fail("meta-accepted:"+p.Reason, fmt.Sprintf("input %s: metadata is invalid (%s) but Decode delivered %s", hexShort(b), p.Reason, st.rd.Calls[0]), mkBytesCase(b, unit))
	case p.MetaOK:
		want := rec.Call{M: rec.MReset, VB: p.VB, Pal: &p.Pal}
		if !st.rd.Calls[0].Equal(&want) {
			key := "reset-args:viewbox"
			if st.rd.Calls[0].VB == want.VB {
				key = "reset-args:palette"
			}
			w.Fail(key, fmt.Sprintf("input %s: Reset got %s, specification says %s", hexShort(b), st.rd.Calls[0], want), mkBytesCase(b, unit))
		}
	}
	// metadata-only decoding
	vb, verr := decode.DecodeViewBox(b)
	if (verr == nil) != p.MetaOK {
		w.Fail(fmt.Sprintf("decodeviewbox-accept:%v", verr == nil), fmt.Sprintf("input %s: DecodeViewBox err=%v but metadata valid=%v (%s)", hexShort(b), verr, p.MetaOK, p.Reason), mkBytesCase(b, unit))
	} else if verr == nil {
		if f32b(vb.MinX) != f32b(p.VB.MinX) || f32b(vb.MinY) != f32b(p.VB.MinY) || f32b(vb.MaxX) != f32b(p.VB.MaxX) || f32b(vb.MaxY) != f32b(p.VB.MaxY) {
			w.Fail("decodeviewbox-value", fmt.Sprintf("input %s: DecodeViewBox=%v want %v", hexShort(b), vb, p.VB), mkBytesCase(b, unit))
		}
	} else if _, ok := verr.(decode.DecodeError); !ok {
		w.Fail("decodeviewbox-errtype", fmt.Sprintf("input %s: DecodeViewBox error %T", hexShort(b), verr), mkBytesCase(b, unit))
	}
	// defaults after anything: right after this input — accepted or rejected at whatever point — a
	// graphic without metadata chunks gets the default viewBox and the default palette (a decoder
	// that recycles its metadata must not let one input's chunks leak into the next decode)
	// (after every other input only, chosen by the input's content: the extra decodes would themselves
	// refresh whatever a decoder remembers about its last call, and so hide a stale memo)
	if !bytes.Equal(b, c13Canary) && len(b) > 0 && (len(b)+int(b[len(b)-1]))%2 == 0 {
		st.rdc.ResetLog()
		cerr, cpnc, _ := safeDecode(&st.rdc, c13Canary)
		want := rec.Call{M: rec.MReset, VB: ivg.DefaultViewBox, Pal: &ivg.DefaultPalette}
		cvb, cverr := decode.DecodeViewBox(c13Canary)
		if cpnc != nil || cerr != nil || len(st.rdc.Calls) != 1 || !st.rdc.Calls[0].Equal(&want) || cverr != nil || cvb != ivg.DefaultViewBox {
			got := "nothing"
			if len(st.rdc.Calls) > 0 {
				got = st.rdc.Calls[0].String()
			}
			w.Fail("defaults-after-another-input", fmt.Sprintf("a graphic without metadata chunks decoded right after input %s: Decode err=%v delivers %s, DecodeViewBox=%v err=%v; the defaults are due", hexShort(b), cerr, got, cvb, cverr),
				mkBytesCase(b, unit)) // replaying the input runs this step again
		}
	}
	h := mc.NewHasher()
	h.Bool(p.MetaOK)
	if p.MetaOK {
		h.F32(p.VB.MinX)
		h.F32(p.VB.MinY)
		h.F32(p.VB.MaxX)
		h.F32(p.VB.MaxY)
		for _, c := range p.Pal {
			h.Byte(c.R)
			h.Byte(c.G)
			h.Byte(c.B)
			h.Byte(c.A)
		}
	} else {
		h.Str(p.Reason)
	}
	nt := p.MetaOK && (p.HasVB || p.HasPal)
	w.Outcome(h.Sum(), nt)
	if nt && p.HasPal && p.HasVB && w.WantSample() {
		w.Sample(map[string]any{"unit": unit, "hex": hexShort(b), "reset": st.rd.Calls[0].String()})
	}
}
