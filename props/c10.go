package props

import (
	"bytes"
	"encoding/json"
	"fmt"
	"image/color"
	"reflect"
	"strings"

	"github.com/reactivego/ivg"
	"github.com/reactivego/ivg/decode"
	"github.com/reactivego/ivg/encode"
	"verif/mc"
	"verif/rec"
)

// C10 — the Encoder accepts exactly protocol-respecting histories; errors are
// sticky. Engine S: product of the real Encoder with the specification
// automaton (styling / drawing / error).

type encLetter struct {
	name  string
	call  *rec.Call // mutating Destination call (nil for reads and Bytes)
	read  byte      // 'b' Bytes, 'c' CSel, 'n' NSel, 'l' LOD
	class int       // protocol class, see c10Step
}

const (
	kRead = iota
	kStyling
	kStylingBadAdj
	kStylingBadIncr
	kStart
	kStartBad
	kDraw
	kEnd
	kReset
)

var c10CustomVB = ivg.ViewBox{MinX: -24.3203125, MinY: -24, MaxX: 24, MaxY: 24.5} // MinX = -(24+41/128): off the 1/64 grid, exact in the 4-byte form
var c10CustomPal = func() [64]color.RGBA {
	p := ivg.DefaultPalette
	p[0] = color.RGBA{0x11, 0x22, 0x33, 0xff}
	p[2] = color.RGBA{0x30, 0x66, 0x07, 0x80}
	return p
}()
var c10Col = ivg.RGBAColor(color.RGBA{0x30, 0x66, 0x07, 0x80})

func mcall(c rec.Call) *rec.Call { return &c }

var c10Letters = []encLetter{
	{name: "Bytes", read: 'b'},
	{name: "CSel", read: 'c'},
	{name: "NSel", read: 'n'},
	{name: "LOD", read: 'l'},
	{name: "HighResolutionCoordinates=true", read: 'H'},
	{name: "HighResolutionCoordinates=false", read: 'h'},
	{name: "SetCSel(5)", call: mcall(rec.Call{M: rec.MSetCSel, Adj: 5}), class: kStyling},
	{name: "SetNSel(7)", call: mcall(rec.Call{M: rec.MSetNSel, Adj: 7}), class: kStyling},
	{name: "SetCReg(1,false,rgba)", call: mcall(rec.Call{M: rec.MSetCReg, Adj: 1, C: c10Col}), class: kStyling},
	{name: "SetCReg(0,true,pal3)", call: mcall(rec.Call{M: rec.MSetCReg, Incr: true, C: ivg.PaletteIndexColor(3)}), class: kStyling},
	{name: "SetCReg(7,false,rgba)", call: mcall(rec.Call{M: rec.MSetCReg, Adj: 7, C: c10Col}), class: kStylingBadAdj},
	{name: "SetCReg(1,true,rgba)", call: mcall(rec.Call{M: rec.MSetCReg, Adj: 1, Incr: true, C: c10Col}), class: kStylingBadIncr},
	{name: "SetNReg(2,false,0.5)", call: mcall(rec.Call{M: rec.MSetNReg, Adj: 2, A: [6]float32{0.5}}), class: kStyling},
	{name: "SetNReg(0,true,7)", call: mcall(rec.Call{M: rec.MSetNReg, Incr: true, A: [6]float32{7}}), class: kStyling},
	{name: "SetNReg(7,false,1.25)", call: mcall(rec.Call{M: rec.MSetNReg, Adj: 7, A: [6]float32{1.25}}), class: kStylingBadAdj},
	{name: "SetNReg(1,true,2)", call: mcall(rec.Call{M: rec.MSetNReg, Adj: 1, Incr: true, A: [6]float32{2}}), class: kStylingBadIncr},
	{name: "SetLOD(1,100)", call: mcall(rec.Call{M: rec.MSetLOD, A: [6]float32{1, 100}}), class: kStyling},
	{name: "StartPath(2,1,2)", call: mcall(rec.Call{M: rec.MStartPath, Adj: 2, A: [6]float32{1, 2}}), class: kStart},
	{name: "StartPath(7,1,2)", call: mcall(rec.Call{M: rec.MStartPath, Adj: 7, A: [6]float32{1, 2}}), class: kStartBad},
	{name: "StartPath(71,1,2)", call: mcall(rec.Call{M: rec.MStartPath, Adj: 71, A: [6]float32{1, 2}}), class: kStartBad},
	{name: "SetCReg(130,false,rgba)", call: mcall(rec.Call{M: rec.MSetCReg, Adj: 130, C: c10Col}), class: kStylingBadAdj},
	{name: "SetNReg(64,false,1.25)", call: mcall(rec.Call{M: rec.MSetNReg, Adj: 64, A: [6]float32{1.25}}), class: kStylingBadAdj},
	{name: "AbsLineTo(127.995,4.5)", call: mcall(rec.Call{M: rec.MAbsL, A: [6]float32{127.995, 4.5}}), class: kDraw}, // rounds to 128 at low resolution: outside the 2-byte range
	{name: "RelArcTo", call: mcall(rec.Call{M: rec.MRelA, LA: true, A: [6]float32{0, 6, 0.25, 7, 8}}), class: kDraw}, // a zero radius: drawn as a line, but an arc operation all the same
	{name: "AbsHLineTo(-9.003)", call: mcall(rec.Call{M: rec.MAbsH, A: [6]float32{-9.003}}), class: kDraw},           // not a multiple of 1/64
	{name: "ClosePathAbsMoveTo(10,11)", call: mcall(rec.Call{M: rec.MAbsMove, A: [6]float32{10, 11}}), class: kDraw},
	{name: "ClosePathEndPath", call: mcall(rec.Call{M: rec.MEndPath}), class: kEnd},
	{name: "Reset(default)", call: mcall(rec.Call{M: rec.MReset, VB: ivg.DefaultViewBox, Pal: &ivg.DefaultPalette}), class: kReset},
	{name: "Reset(custom)", call: mcall(rec.Call{M: rec.MReset, VB: c10CustomVB, Pal: &c10CustomPal}), class: kReset},
}

// spec automaton
const (
	aStyling = iota
	aDrawing
	aError
)

func c10Step(state int, class int) int {
	if class == kReset {
		return aStyling
	}
	if state == aError || class == kRead {
		return state
	}
	switch class {
	case kStyling:
		if state == aStyling {
			return aStyling
		}
	case kStart:
		if state == aStyling {
			return aDrawing
		}
	case kDraw:
		if state == aDrawing {
			return aDrawing
		}
	case kEnd:
		if state == aDrawing {
			return aStyling
		}
	}
	return aError
}

// initial objects: 0 zero value, 1 after Reset(default), 2 after an erroneous history
var c10Inits = []string{"zero-value", "Reset(default)", "after-error"}

func c10NewEncoder(init int) (*encode.Encoder, int) {
	e := &encode.Encoder{}
	switch init {
	case 1:
		e.Reset(ivg.DefaultViewBox, ivg.DefaultPalette)
	case 2:
		e.AbsLineTo(1, 1) // drawing op outside a path
		return e, aError
	}
	return e, aStyling
}

type c10Case struct {
	Init    int    `json:"init"`
	Letters []int  `json:"letters"`
	Names   string `json:"history,omitempty"`
	Sweep   []int  `json:"sweep,omitempty"` // method (0 StartPath, 1 SetCReg, 2 SetNReg, 3 SetCSel, 4 SetNSel; 5.. run of `argument` l / H / q / A / a calls), argument, incr, initial object
}

// c10Sweep: every value of the uint8 argument of the calls that take one, from the zero
// value and after Reset: an adjustment above 6 (or an increment with a non-zero
// adjustment) is an error, everything else decodes to the call; selectors count modulo 64.
func c10Sweep(w *mc.W) {
	// runs of n identical drawing calls, n around the multiples of 256
	for init := 0; init < 2; init++ {
		for verb := 0; verb < 5; verb++ {
			for _, n := range []int{16, 17, 31, 32, 33, 254, 255, 256, 257, 258, 511, 512, 513, 1024, 1025} {
				c10SweepOne(w, 5+verb, n, 0, init)
			}
		}
	}
	for init := 0; init < 2; init++ {
		for m := 0; m < 5; m++ {
			for v := 0; v < 256; v++ {
				for incr := 0; incr < 2; incr++ {
					if incr == 1 && m != 1 && m != 2 {
						continue
					}
					c10SweepOne(w, m, v, incr, init)
				}
			}
		}
	}
}

func c10SweepOne(w *mc.W, m, v, incr, init int) {
	w.Eval()
	e, _ := c10NewEncoder(init)
	var want rec.Call
	bad := false
	name := ""
	switch m {
	case 0:
		name = fmt.Sprintf("StartPath(%d,1,2); ClosePathEndPath", v)
		e.StartPath(uint8(v), 1, 2)
		e.ClosePathEndPath()
		want, bad = rec.Call{M: rec.MStartPath, Adj: uint8(v), A: [6]float32{1, 2}}, v > 6
	case 1:
		name = fmt.Sprintf("SetCReg(%d,%v,rgba)", v, incr == 1)
		e.SetCReg(uint8(v), incr == 1, c10Col)
		want, bad = rec.Call{M: rec.MSetCReg, Adj: uint8(v), Incr: incr == 1, C: c10Col}, v > 6 || (incr == 1 && v != 0)
	case 2:
		name = fmt.Sprintf("SetNReg(%d,%v,1.25)", v, incr == 1)
		e.SetNReg(uint8(v), incr == 1, 1.25)
		want, bad = rec.Call{M: rec.MSetNReg, Adj: uint8(v), Incr: incr == 1, A: [6]float32{1.25}}, v > 6 || (incr == 1 && v != 0)
	case 3:
		name = fmt.Sprintf("SetCSel(%d)", v)
		e.SetCSel(uint8(v))
		want = rec.Call{M: rec.MSetCSel, Adj: uint8(v & 63)}
	case 4:
		name = fmt.Sprintf("SetNSel(%d)", v)
		e.SetNSel(uint8(v))
		want = rec.Call{M: rec.MSetNSel, Adj: uint8(v & 63)}
	}
	if m >= 5 {
		// a run of v identical drawing calls decodes to v calls
		c := []rec.Call{{M: rec.MRelL, A: [6]float32{1, -2}}, {M: rec.MAbsH, A: [6]float32{5}}, {M: rec.MRelQ, A: [6]float32{1, 2, 3, 4}},
			{M: rec.MAbsA, LA: true, A: [6]float32{3, 4, 0.25, 5, 6}}, {M: rec.MRelA, SW: true, A: [6]float32{2, 2, 0.5, -1, 2}}}[m-5]
		name = fmt.Sprintf("StartPath; %d x %s with the first operand counting up; ClosePathEndPath", v, c.String())
		cs := c10Case{Init: init, Sweep: []int{m, v, incr, init}, Names: c10Inits[init] + ": " + name}
		e.StartPath(0, 0, 0)
		first := c.A[0]
		nth := func(i int) rec.Call {
			ci := c
			ci.A[0] = first + float32(i%100)
			return ci
		}
		for i := 0; i < v; i++ {
			ci := nth(i)
			ci.Apply(e)
		}
		e.ClosePathEndPath()
		b, err := e.Bytes()
		if err != nil {
			w.Fail("spurious-error:sweep", fmt.Sprintf("[%s] respects the protocol but Bytes() reports %v", name, err), cs)
			return
		}
		var rd rec.Dest
		if derr := decode.Decode(&rd, b); derr != nil {
			w.Fail("accepted-history-undecodable", fmt.Sprintf("[%s]: Decode fails: %v", name, derr), cs)
			return
		}
		ok := len(rd.Calls) == v+3
		for i := 0; ok && i < v; i++ {
			ci := nth(i)
			ok = rd.Calls[2+i].Equal(&ci)
		}
		if !ok {
			w.Fail("decodes-differently:sweep-run", fmt.Sprintf("[%s]: the stream (%d bytes) decodes to %d calls, expected %d", name, len(b), len(rd.Calls), v+3), cs)
			return
		}
		h := mc.NewHasher()
		h.Str("sweep-run")
		h.Byte(byte(m))
		w.Outcome(h.Sum(), true)
		return
	}
	cs := c10Case{Init: init, Sweep: []int{m, v, incr, init}, Names: c10Inits[init] + ": " + name}
	b, err := e.Bytes()
	h := mc.NewHasher()
	h.Str("sweep")
	h.Byte(byte(m))
	h.Bool(bad)
	if bad {
		if err == nil {
			w.Fail("missing-error:sweep:"+[]string{"StartPath", "SetCReg", "SetNReg"}[m], fmt.Sprintf("[%s] violates the protocol (adjustment above 6, or increment with an adjustment) but Bytes() reports no error: %x", name, b), cs)
		}
		w.Count("error_states", 1)
		w.Outcome(h.Sum(), true)
		return
	}
	if err != nil {
		w.Fail("spurious-error:sweep", fmt.Sprintf("[%s] respects the protocol but Bytes() reports %v", name, err), cs)
		return
	}
	if m == 3 && int(e.CSel()) != v&63 || m == 4 && int(e.NSel()) != v&63 {
		w.Fail("sweep:selector-readback", fmt.Sprintf("[%s]: read-backs CSEL=%d NSEL=%d", name, e.CSel(), e.NSel()), cs)
		return
	}
	var rd rec.Dest
	if derr := decode.Decode(&rd, b); derr != nil {
		w.Fail("accepted-history-undecodable", fmt.Sprintf("[%s]: Decode of %x fails: %v", name, b, derr), cs)
		return
	}
	wantN := 2
	if m == 0 {
		wantN = 3
	}
	if len(rd.Calls) != wantN || !rd.Calls[1].Equal(&want) {
		w.Fail("decodes-differently:sweep", fmt.Sprintf("[%s]: stream %x decodes to %s", name, b, rec.CallsString(rd.Calls)), cs)
		return
	}
	w.Outcome(h.Sum(), false)
}

func c10Names(ls []int) string {
	var s []string
	for _, l := range ls {
		s = append(s, c10Letters[l].name)
	}
	return strings.Join(s, "; ")
}

func c10Depth(tier string) int {
	if tier == "thorough" {
		return 6
	}
	return 5
}

func init() {
	nl := len(c10Letters)
	mc.Register(&mc.Check{
		ID:    "C10",
		Level: "model_checking",
		Rule: "engine S: all histories of <=5 (thorough <=6; from the zero value also every history of 7 calls whose last five come from a 21-letter core alphabet) calls over a 29-letter alphabet of call classes (Bytes, CSel, NSel, LOD, SetCSel, SetNSel, SetCReg/SetNReg {ok, ok-incr, ADJ=7, incr with ADJ=1}, SetLOD, StartPath {ok, ADJ=7, ADJ=71}, SetCReg ADJ=130, SetNReg ADJ=64, L (x = 127.995, which rounds to 128), A, H, Y, Z, Reset {default, custom}) from 3 initial objects (zero value, Reset(default), after an error), " +
			"plus every value 0..255 of the uint8 argument of StartPath, SetCReg, SetNReg (with and without increment), SetCSel, SetNSel, and runs of 16..1025 drawing calls (l, H, q, A, a; first operand counting up); " +
			"each executed on a real Encoder in lock step with the 3-state specification automaton; then breadth-first search to depth 12 (thorough 16) over canonical private states (reflective dump minus write-only buffers). " +
			"In every state: Bytes errs iff the automaton is in error, the error value is the first one and sticky, Bytes twice equal, closed error-free histories decode to exactly the calls since the last Reset, zero-value and Reset(default) objects agree on bytes, errors and read-backs. " +
			"states = distinct canonical Encoder states seen, transitions = calls executed in the BFS, evaluations = histories judged; non-trivial = history reaches the error state or contains a closed path",
		Assumptions: []string{"abstraction drops the fields buf, altBuf, scratch, metadata (write-only after Reset); merges are validated by comparing incremental outputs on all 1-letter (depth<=5) and 2-letter (depth<=3) suffixes"},
		Units:       func(tier string) int { return 3*nl*nl + 2 },
		Run: func(w *mc.W, u int) {
			if u == 3*nl*nl {
				c10BFS(w)
				return
			}
			if u == 3*nl*nl+1 {
				c10Sweep(w)
				return
			}
			init, l0, l1 := u/(nl*nl), u/nl%nl, u%nl
			D := c10Depth(w.Tier)
			seq := make([]int, 0, 8)
			seq = append(seq, l0)
			if l1 == 0 {
				c10Check(w, init, seq) // the length-1 history
			}
			seq = append(seq, l1)
			var rec func()
			rec = func() {
				if w.Expired() {
					return
				}
				c10Check(w, init, seq)
				if len(seq) == D {
					return
				}
				for l := 0; l < nl; l++ {
					seq = append(seq, l)
					rec()
					seq = seq[:len(seq)-1]
				}
			}
			if w.Thorough && init == 0 {
				// the zero value (which is also compared with the reset object) one level deeper:
				// histories of exactly 7 letters whose letters 3..7 come from the core alphabet
				// (one representative per call class: without the read-backs and the second
				// representatives of the bad-adjustment classes)
				var core []int
				for l := range c10Letters {
					switch c10Letters[l].name {
					case "CSel", "NSel", "LOD", "StartPath(71,1,2)", "SetCReg(130,false,rgba)", "SetNReg(64,false,1.25)", "SetCReg(7,false,rgba)", "SetNReg(1,true,2)":
					default:
						core = append(core, l)
					}
				}
				var rec7 func()
				rec7 = func() {
					if len(seq) == 7 {
						if !w.Expired() {
							c10Check(w, init, seq)
						}
						return
					}
					for _, l := range core {
						seq = append(seq, l)
						rec7()
						seq = seq[:len(seq)-1]
					}
				}
				rec7()
				w.Depth(7)
			}
			rec()
			w.Depth(D)
		},
		Replay: func(w *mc.W, data json.RawMessage) error {
			var cs c10Case
			if err := unmarshalCase(data, &cs); err != nil {
				return err
			}
			if cs.Sweep != nil {
				c10SweepOne(w, cs.Sweep[0], cs.Sweep[1], cs.Sweep[2], cs.Sweep[3])
				return nil
			}
			c10Check(w, cs.Init, cs.Letters)
			return nil
		},
		Post: func(tier string, m *mc.Result) string {
			if m.Counters["error_states"] == 0 || m.Counters["decoded_histories"] == 0 {
				return "error state or decodable histories never reached"
			}
			return postDistinct(20)(tier, m)
		},
	})
}

type c10Obs struct {
	bytes    []byte
	err      error
	firstErr error
	reads    []uint32
	state    int
	since    []rec.Call // mutating calls since the last Reset (including it)
	hires    []bool     // per call of since: the resolution its path was started with
	implicit bool       // no explicit Reset since construction: default metadata implied
}

// c10Exec runs a history on a fresh object and observes it.
func c10Exec(init int, letters []int) c10Obs {
	e, state := c10NewEncoder(init)
	var o c10Obs
	o.implicit = true
	flag, latched := false, false
	if state == aError {
		_, o.firstErr = e.Bytes()
	}
	for _, li := range letters {
		l := &c10Letters[li]
		switch l.read {
		case 'b':
			e.Bytes()
		case 'c':
			o.reads = append(o.reads, uint32(e.CSel()))
		case 'n':
			o.reads = append(o.reads, uint32(e.NSel()))
		case 'l':
			a, b := e.LOD()
			o.reads = append(o.reads, f32b(a), f32b(b))
		case 'H', 'h':
			// the exported flag; it takes effect at the next StartPath and Reset clears it
			e.HighResolutionCoordinates = l.read == 'H'
			flag = l.read == 'H'
		default:
			l.call.Apply(e)
			if l.class == kReset {
				o.since = o.since[:0]
				o.hires = o.hires[:0]
				o.implicit = false
				o.firstErr = nil
				flag = false
			}
			if l.call.M == rec.MStartPath {
				latched = flag
			}
			o.since = append(o.since, *l.call)
			o.hires = append(o.hires, latched)
		}
		ns := c10Step(state, l.class)
		if ns == aError && state != aError {
			_, o.firstErr = e.Bytes()
		}
		state = ns
	}
	o.state = state
	b, err := e.Bytes()
	o.bytes = append([]byte(nil), b...)
	o.err = err
	b2, err2 := e.Bytes()
	if err != err2 || !bytes.Equal(o.bytes, b2) {
		o.state = -1
	}
	return o
}

func c10Check(w *mc.W, init int, letters []int) {
	w.Eval()
	w.Trace()
	cs := func() c10Case {
		return c10Case{Init: init, Letters: append([]int(nil), letters...), Names: c10Inits[init] + ": " + c10Names(letters)}
	}
	o := c10Exec(init, letters)
	if o.state == -1 {
		w.Fail("bytes-twice-differ", "two consecutive Bytes() calls disagree after "+c10Names(letters), cs())
		return
	}
	h := mc.NewHasher()
	h.Byte(byte(o.state))
	wantErr := o.state == aError
	if (o.err != nil) != wantErr {
		last := c10Letters[letters[len(letters)-1]]
		if wantErr {
			w.Fail(fmt.Sprintf("missing-error:%s", last.name), fmt.Sprintf("history [%s] from %s violates the protocol but Bytes() reports no error", c10Names(letters), c10Inits[init]), cs())
		} else {
			w.Fail(fmt.Sprintf("spurious-error:%s", last.name), fmt.Sprintf("history [%s] from %s respects the protocol but Bytes() reports %v", c10Names(letters), c10Inits[init], o.err), cs())
		}
		return
	}
	if wantErr {
		w.Count("error_states", 1)
		if o.firstErr != o.err {
			w.Fail("error-not-sticky", fmt.Sprintf("history [%s] from %s: first violation reported %v, later Bytes() reports %v", c10Names(letters), c10Inits[init], o.firstErr, o.err), cs())
		}
		if o.bytes != nil && len(o.bytes) > 0 {
			w.Fail("bytes-with-error", "Bytes() returned data together with an error", cs())
		}
		h.Str(o.err.Error())
		w.Outcome(h.Sum(), true)
		return
	}
	// zero value == Reset(default): bytes, errors, read-backs
	if init == 0 {
		o1 := c10Exec(1, letters)
		if !bytes.Equal(o.bytes, o1.bytes) || o.err != o1.err {
			w.Fail("zero-value-differs:bytes", fmt.Sprintf("history [%s]: zero-value Encoder yields %x, Reset(default) Encoder yields %x", c10Names(letters), o.bytes, o1.bytes), cs())
		}
		if fmt.Sprint(o.reads) != fmt.Sprint(o1.reads) {
			w.Fail("zero-value-differs:readback", fmt.Sprintf("history [%s]: zero-value Encoder read-backs %x, Reset(default) Encoder %x", c10Names(letters), o.reads, o1.reads), cs())
		}
	}
	if o.state == aStyling {
		// all paths ended: must decode to the history
		var rd rec.Dest
		err := decode.Decode(&rd, o.bytes)
		if err != nil {
			w.Fail("accepted-history-undecodable", fmt.Sprintf("history [%s] from %s: Decode of %x fails: %v", c10Names(letters), c10Inits[init], o.bytes, err), cs())
			return
		}
		want, hires := o.since, o.hires
		if o.implicit || init == 2 && len(want) == 0 {
			want = append([]rec.Call{{M: rec.MReset, VB: ivg.DefaultViewBox, Pal: &ivg.DefaultPalette}}, want...)
			hires = append([]bool{false}, hires...)
		}
		// every argument of the alphabet is exactly representable at either resolution, except
		// the AbsHLineTo coordinate, which must come back as C01 states for the resolution the
		// path was started with
		i, why := -1, ""
		for k := 0; k < len(want) && k < len(rd.Calls); k++ {
			if why = cmpCall(&want[k], &rd.Calls[k], hires[k]); why != "" {
				i = k
				break
			}
		}
		if i < 0 && len(want) != len(rd.Calls) {
			i, why = min(len(want), len(rd.Calls)), "number of calls"
		}
		if i >= 0 {
			w.Fail("decodes-differently:"+methodAt(want, i), fmt.Sprintf("history [%s] from %s: stream %x decodes call %d as %s, history has %s (%s; path started at high resolution: %v)", c10Names(letters), c10Inits[init], o.bytes, i, callAt(rd.Calls, i), callAt(want, i), why, i < len(hires) && hires[i]), cs())
			return
		}
		w.Count("decoded_histories", 1)
		rec.HashCalls(&h, rd.Calls, false)
		nt := false
		for i := range rd.Calls {
			if rd.Calls[i].M == rec.MEndPath {
				nt = true
			}
		}
		w.Outcome(h.Sum(), nt)
		if nt && w.WantSample() && len(letters) >= 4 {
			w.Sample(map[string]any{"init": c10Inits[init], "history": c10Names(letters), "bytes": fmt.Sprintf("%x", o.bytes)})
		}
		return
	}
	h.U32(uint32(len(o.bytes)))
	w.Outcome(h.Sum(), false)
}

// ---- phase 2: BFS over canonical private states -------------------------------

var c10Drop = map[string]bool{"buf": true, "altBuf": true, "scratch": true, "metadata": true}

func c10Key(init int, letters []int) (uint64, int) {
	e, state := c10NewEncoder(init)
	for _, li := range letters {
		l := &c10Letters[li]
		switch l.read {
		case 'b':
			e.Bytes()
		case 'c':
			e.CSel()
		case 'n':
			e.NSel()
		case 'l':
			e.LOD()
		case 'H', 'h':
			e.HighResolutionCoordinates = l.read == 'H'
		default:
			l.call.Apply(e)
		}
		state = c10Step(state, l.class)
	}
	h := mc.NewHasher()
	mc.DumpHash(&h, reflect.ValueOf(e).Elem(), c10Drop)
	h.Byte(byte(state))
	return h.Sum(), state
}

// c10Incr is the incremental output of suffix s after history h.
func c10Incr(init int, hist, suffix []int) string {
	a := c10Exec(init, hist)
	b := c10Exec(init, append(append([]int(nil), hist...), suffix...))
	inc := ""
	if len(b.bytes) >= len(a.bytes) {
		inc = fmt.Sprintf("%x", b.bytes[len(a.bytes):])
	} else {
		inc = fmt.Sprintf("reset:%x", b.bytes)
	}
	return fmt.Sprintf("%s|%v|%x", inc, b.err, b.reads[len(a.reads):])
}

func c10BFS(w *mc.W) {
	maxDepth := 12
	if w.Thorough {
		maxDepth = 16
	}
	nl := len(c10Letters)
	type node struct {
		hist []int
		init int
	}
	seen := map[uint64]node{}
	var frontier []node
	for init := range c10Inits {
		k, _ := c10Key(init, nil)
		if _, ok := seen[k]; !ok {
			seen[k] = node{nil, init}
			frontier = append(frontier, node{nil, init})
		}
	}
	merges, validated := int64(0), int64(0)
	for depth := 1; depth <= maxDepth && len(frontier) > 0; depth++ {
		var next []node
		for _, n := range frontier {
			if w.Expired() {
				w.Cap(fmt.Sprintf("BFS stopped at depth %d", depth))
				return
			}
			for l := 0; l < nl; l++ {
				hist := append(append(make([]int, 0, len(n.hist)+1), n.hist...), l)
				w.Transition(1)
				c10Check(w, n.init, hist)
				k, _ := c10Key(n.init, hist)
				if old, ok := seen[k]; ok {
					merges++
					// validate the abstraction: merged histories must have the same incremental behaviour
					if depth <= 5 {
						for s := 0; s < nl; s++ {
							if c10Letters[s].class == kReset {
								continue
							}
							validated++
							if c10Incr(n.init, hist, []int{s}) != c10Incr(old.init, old.hist, []int{s}) {
								w.HarnessError("abstraction unsound: histories [%s]/%s and [%s]/%s share a canonical state but differ on suffix %s",
									c10Names(hist), c10Inits[n.init], c10Names(old.hist), c10Inits[old.init], c10Letters[s].name)
								return
							}
							if depth <= 3 {
								for s2 := 0; s2 < nl; s2++ {
									if c10Letters[s2].class == kReset {
										continue
									}
									validated++
									if c10Incr(n.init, hist, []int{s, s2}) != c10Incr(old.init, old.hist, []int{s, s2}) {
										w.HarnessError("abstraction unsound on suffix %s;%s", c10Letters[s].name, c10Letters[s2].name)
										return
									}
								}
							}
						}
					}
					continue
				}
				seen[k] = node{hist, n.init}
				next = append(next, node{hist, n.init})
			}
		}
		frontier = next
		w.Depth(depth)
	}
	w.State(int64(len(seen)))
	w.Count("bfs_merged_states", merges)
	w.Count("bfs_merge_validations", validated)
}
