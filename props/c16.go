package props

import (
	"bytes"
	"encoding/json"
	"fmt"
	"image"
	"image/color"
	"image/draw"
	"math"

	"github.com/reactivego/ivg"
	"github.com/reactivego/ivg/decode"
	"github.com/reactivego/ivg/encode"
	"github.com/reactivego/ivg/raster/vec"
	"github.com/reactivego/ivg/render"
	"verif/mc"
	"verif/ref"
)

// C16 — pixels are invariant under re-expression of the same picture
// (metamorphic relations, pixel buffers compared byte for byte).

// shapes: drawing part of a path, all coordinates multiplied by s = 2^k
var c16Shapes = []struct {
	name string
	draw func(d ivg.Destination, adj uint8, s float32)
}{
	{"triangle-L", func(d ivg.Destination, adj uint8, s float32) {
		d.StartPath(adj, -20*s, -20*s)
		d.AbsLineTo(20*s, -16*s)
		d.AbsLineTo(-4*s, 24*s)
		d.ClosePathEndPath()
	}},
	{"triangle-l", func(d ivg.Destination, adj uint8, s float32) {
		d.StartPath(adj, -22.5*s, 10*s)
		d.RelLineTo(40*s, 7.25*s)
		d.RelLineTo(-13*s, -33*s)
		d.ClosePathEndPath()
	}},
	{"box-HV", func(d ivg.Destination, adj uint8, s float32) {
		d.StartPath(adj, -16*s, -12*s)
		d.AbsHLineTo(18.5 * s)
		d.AbsVLineTo(14 * s)
		d.RelHLineTo(-30 * s)
		d.RelVLineTo(-20.25 * s)
		d.ClosePathEndPath()
	}},
	{"Q+T", func(d ivg.Destination, adj uint8, s float32) {
		d.StartPath(adj, -24*s, 0)
		d.AbsQuadTo(-12*s, -28*s, 0, 0)
		d.AbsSmoothQuadTo(24*s, 0)
		d.AbsLineTo(0, 26*s)
		d.ClosePathEndPath()
	}},
	{"q+t", func(d ivg.Destination, adj uint8, s float32) {
		d.StartPath(adj, -24*s, 4*s)
		d.RelQuadTo(10*s, 24*s, 22*s, 0)
		d.RelSmoothQuadTo(20*s, -3*s)
		d.RelLineTo(-20*s, -28*s)
		d.ClosePathEndPath()
	}},
	{"C+S", func(d ivg.Destination, adj uint8, s float32) {
		d.StartPath(adj, -26*s, -4*s)
		d.AbsCubeTo(-20*s, -30*s, -6*s, -30*s, 0, -4*s)
		d.AbsSmoothCubeTo(20*s, 22*s, 26*s, -4*s)
		d.AbsLineTo(0, 28*s)
		d.ClosePathEndPath()
	}},
	{"c+s", func(d ivg.Destination, adj uint8, s float32) {
		d.StartPath(adj, -20*s, 8*s)
		d.RelCubeTo(4*s, -30*s, 12*s, -30*s, 18*s, -6*s)
		d.RelSmoothCubeTo(14*s, 20*s, 22*s, 2*s)
		d.RelLineTo(-20*s, 20*s)
		d.ClosePathEndPath()
	}},
	{"A-pie", func(d ivg.Destination, adj uint8, s float32) {
		d.StartPath(adj, 0, 0)
		d.AbsLineTo(22*s, 0)
		d.AbsArcTo(22*s, 22*s, 0, true, true, 0, -22*s)
		d.ClosePathEndPath()
	}},
	{"a-pie", func(d ivg.Destination, adj uint8, s float32) {
		d.StartPath(adj, -4*s, 6*s)
		d.RelLineTo(-18*s, 0)
		d.RelArcTo(18*s, 12*s, 0.125, false, true, 24*s, -14*s)
		d.ClosePathEndPath()
	}},
	{"two-subpaths-Yy", func(d ivg.Destination, adj uint8, s float32) {
		d.StartPath(adj, -28*s, -28*s)
		d.AbsLineTo(-4*s, -28*s)
		d.AbsLineTo(-16*s, -6*s)
		d.ClosePathAbsMoveTo(6*s, 4*s)
		d.RelLineTo(20*s, 0)
		d.RelLineTo(-10*s, 22*s)
		d.ClosePathRelMoveTo(-30*s, 0)
		d.RelLineTo(8*s, 0)
		d.RelLineTo(0, 8*s)
		d.ClosePathEndPath()
	}},
}

// fills: how CREG[CSEL] gets its paint. mode 0 = direct, 1 = indirect
// (palette index / register reference / blend) for relation (c).
var c16FlatOpaque = color.RGBA{0x30, 0x60, 0x90, 0xff}
var c16FlatTrans = color.RGBA{0x40, 0x20, 0x10, 0x80}

var c16Palette = func() [64]color.RGBA {
	p := ivg.DefaultPalette
	p[1] = color.RGBA{0x80, 0x80, 0x80, 0x80} // translucent and one-byte encodable, below entries that need three bytes
	p[3] = c16FlatOpaque
	p[7] = color.RGBA{0x80, 0x40, 0x20, 0xff}
	p[8] = p[7]
	return p
}()

const c16NFills = 7

func c16Fill(d ivg.Destination, fill int, indirect bool, s float32) {
	inv := 1 / s
	switch fill {
	case 0:
		if indirect {
			d.SetCReg(0, false, ivg.PaletteIndexColor(3))
		} else {
			d.SetCReg(0, false, ivg.RGBAColor(c16FlatOpaque))
		}
	case 1:
		if indirect {
			// palette[1] = 80:80:80:80 blended with palette[7] at t=0x40: every channel depends on the +128 rounding term
			d.SetCReg(0, false, ivg.BlendColor(0x40, 0x81, 0x87))
		} else {
			pal := c16Palette
			c := ref.Color3Indirect(0x40, 0x81, 0x87).Resolve(&pal, &pal)
			d.SetCReg(0, false, ivg.RGBAColor(c))
		}
	case 4:
		// the initial content of a colour register (seeded from the palette) vs the direct colour
		d.SetCSel(3)
		if !indirect {
			d.SetCReg(0, false, ivg.RGBAColor(c16FlatOpaque))
		}
	case 6:
		// the path is gated by a level-of-detail range in pixels: drawn up to a height of 8
		// (emit lifts the gate again after the path)
		d.SetLOD(0, 8.5)
		if indirect {
			d.SetCReg(0, false, ivg.CRegColor(3)) // a register nothing has written since Reset: it holds palette[3]
		} else {
			d.SetCReg(0, false, ivg.RGBAColor(c16FlatOpaque))
		}
	case 5:
		// a palette index and a register reference given with high bits set (they address entry
		// i & 63), after the register of the same number as the palette entry was overwritten
		d.SetCSel(7)
		d.SetCReg(0, false, ivg.RGBAColor(c16FlatTrans))
		d.SetCSel(0)
		if indirect {
			d.SetCReg(1, false, ivg.PaletteIndexColor(0xc0|7)) // CREG[63] = palette[7]
			d.SetCReg(0, false, ivg.CRegColor(0x40|63))        // CREG[0] = CREG[63]
		} else {
			d.SetCReg(0, false, ivg.RGBAColor(c16Palette[7]))
		}
	case 2, 3:
		d.SetCSel(10)
		d.SetNSel(10)
		if fill == 2 { // linear, pad
			m := [6]float32{inv / 32, inv / 64, 0.5, 0, 0, 0}
			for i := 0; i < 6; i++ {
				d.SetNReg(uint8(6-i), false, m[i])
			}
		} else { // radial, reflect
			m := [6]float32{inv / 16, 0, 0.125, inv / 64, inv / 12, -0.25}
			for i := 0; i < 6; i++ {
				d.SetNReg(uint8(6-i), false, m[i])
			}
		}
		if indirect {
			d.SetCReg(0, true, ivg.PaletteIndexColor(3))
			d.SetNReg(0, true, 0)
			d.SetCSel(20)
			d.SetCReg(0, false, ivg.RGBAColor(c16FlatTrans))
			d.SetCSel(11)
			d.SetCReg(0, true, ivg.CRegColor(20))
			d.SetNReg(0, true, 0.5)
			d.SetCReg(0, true, ivg.BlendColor(0xff, 0x00, 0x88)) // = palette[8]; T, C0 and C1 all multiples of 0x11
			d.SetNReg(0, true, 1)
		} else {
			d.SetCReg(0, true, ivg.RGBAColor(c16FlatOpaque))
			d.SetNReg(0, true, 0)
			d.SetCSel(20)
			d.SetCReg(0, false, ivg.RGBAColor(c16FlatTrans))
			d.SetCSel(11)
			d.SetCReg(0, true, ivg.RGBAColor(c16FlatTrans))
			d.SetNReg(0, true, 0.5)
			d.SetCReg(0, true, ivg.RGBAColor(c16Palette[8]))
			d.SetNReg(0, true, 1)
		}
		d.SetCSel(0)
		spread, shape := uint8(1), uint8(0)
		if fill == 3 {
			spread, shape = 2, 1
		}
		gv := ivg.RGBAColor(color.RGBA{3, 10 | spread<<6, 10 | 0x80 | shape<<6, 0})
		if indirect {
			// the gradient value reaches CREG[0] through a register reference
			d.SetCSel(30)
			d.SetCReg(0, false, gv)
			d.SetCSel(0)
			d.SetCReg(0, false, ivg.CRegColor(30))
		} else {
			d.SetCReg(0, false, gv)
		}
	}
}

type c16Prog struct {
	Shapes []int `json:"shapes"`
	Fills  []int `json:"fills"`
}

// gated: the program has a path that is only drawn up to a certain height; when nothing is
// drawn nothing replaces the previous content either, so such programs start from cleared rectangles.
func (p c16Prog) gated() bool {
	for _, f := range p.Fills {
		if f == 6 {
			return true
		}
	}
	return false
}

func (p c16Prog) String() string {
	s := ""
	for i := range p.Shapes {
		if i > 0 {
			s += " + "
		}
		s += fmt.Sprintf("%s/fill%d", c16Shapes[p.Shapes[i]].name, p.Fills[i])
	}
	return s
}

var c16VB = ivg.ViewBox{MinX: -32, MinY: -32, MaxX: 32, MaxY: 32}

// emit runs paths [from,to) of the program.
func (p c16Prog) emit(d ivg.Destination, k int, indirect bool, from, to int, reset bool) {
	s := float32(math.Ldexp(1, k))
	if reset {
		d.Reset(ivg.ViewBox{MinX: c16VB.MinX * s, MinY: c16VB.MinY * s, MaxX: c16VB.MaxX * s, MaxY: c16VB.MaxY * s}, c16Palette)
	}
	for i := from; i < to; i++ {
		c16Fill(d, p.Fills[i], indirect, s)
		c16Shapes[p.Shapes[i]].draw(d, 0, s)
		if p.Fills[i] == 6 {
			d.SetLOD(0, float32(math.Inf(1)))
		}
	}
}

type c16Case struct {
	Prog  c16Prog `json:"program"`
	W     int     `json:"w"`
	H     int     `json:"h"`
	Alpha bool    `json:"alpha_dst"`
	Op    int     `json:"op"` // 0 Over, 1 Src
	Rel   string  `json:"relation"`
	K     int     `json:"k,omitempty"`
	Desc  string  `json:"desc,omitempty"`
}

func c16NewImg(alpha bool, r image.Rectangle) (draw.Image, *[]uint8) {
	if alpha {
		im := image.NewAlpha(r)
		return im, &im.Pix
	}
	im := image.NewRGBA(r)
	return im, &im.Pix
}

// render draws the program into img over rect.
func c16Render(img draw.Image, rect image.Rectangle, op draw.Op, f func(d ivg.Destination)) {
	vz := vec.NewRasterizer(img)
	vz.DrawOp = op
	var z render.Renderer
	if (rect.Dx()+rect.Min.X)%2 == 1 {
		// configured twice: first a rasteriser over another (larger) image with another rectangle
		other := image.NewRGBA(image.Rect(0, 0, rect.Dy()+5, rect.Dx()+3))
		z.SetRasterizer(vec.NewRasterizer(other), other.Bounds())
	}
	z.SetRasterizer(vz, rect)
	f(&z)
}

func c16Sizes(tier string) [][2]int {
	if tier == "thorough" {
		szs := [][2]int{{64, 64}, {512, 512}, {513, 513}, {600, 600}, {40, 100}, {100, 40}, {511, 3}, {3, 514}, {1024, 16}, {2, 3}, {256, 700}, {700, 256}, {510, 510}, {511, 511}, {514, 514}, {511, 513}, {513, 511}}
		for n := 1; n <= 17; n++ {
			szs = append(szs, [2]int{n, n})
		}
		return szs
	}
	return [][2]int{{1, 1}, {7, 7}, {64, 64}, {512, 512}, {513, 513}, {600, 600}, {40, 100}, {100, 40}, {511, 3}}
}

func c16OneProgs() []c16Prog {
	var ps []c16Prog
	for s := range c16Shapes {
		for f := 0; f < c16NFills; f++ {
			ps = append(ps, c16Prog{[]int{s}, []int{f}})
		}
	}
	return ps
}

func init() {
	n1 := len(c16OneProgs())
	mc.Register(&mc.Check{
		ID:    "C16",
		Level: "exploration",
		Rule: "engine P over (graphic x destination x rectangle x transformation): every one-path program over 10 shapes (L, l, H/V, Q+T, q+t, C+S, c+s, A, a, sub-paths via Y and y) x 7 fills (a path gated by a level-of-detail range, opaque via palette index, translucent via a rounding-sensitive blend, linear-pad gradient, radial-reflect gradient, initial content of a colour register, palette index and register reference with high bits set after the like-numbered register was overwritten) x sizes {1,7,64,512,513,600,40x100,100x40,511x3} (thorough: every n x n for n <= 17, 510..514 around the threshold incl. 511x513 / 513x511, 2x3, 3x514, 1024x16, 256x700, 700x256) x {RGBA, Alpha} x {Src, Over}, and every ordered pair of one-path programs (4900) at sizes 64 and 7, rendered with raster/vec. " +
			"Relations, pixel buffers byte for byte: (a) rectangle at offset (7,9), and (o) at offset (0,0), inside a larger image with sentinel margin == image of its own, margin untouched; (b) viewBox, coordinates and radii x 2^k, gradient matrix linear part x 2^-k, k in {-5,-1,+2,+8} (thorough: 14 exponents in -8..8 for sizes <= 100) == original; (c) colours via palette index / register reference / blend == direct colours; (d) [P1,P2] with operator Src == P1 with Src then P2 with Over by a fresh Renderer; (r) relation (c) on a Renderer that rendered another graphic with the same palette before; (e) relation (c) between the two graphics in byte form (Encoder -> Decode -> Renderer); (t) the graphic at two places of one image through one Renderer and one rasteriser == image of its own, twice; (s) a rectangle inside an image whose bounds start at (40,30), rasteriser as a plain literal == image of its own. " +
			"distinct = hash of the rendered pixels; non-trivial = render that produced at least one non-zero and one zero pixel",
		Assumptions: []string{"golang.org/x/image/vector is a trusted dependency", "every float operation of the renderer commutes exactly with power-of-two scaling in the absence of overflow/underflow (the exponent set avoids both)"},
		Units:       func(tier string) int { return n1 + n1 },
		Run: func(w *mc.W, u int) {
			one := c16OneProgs()
			if u < n1 {
				p := one[u]
				for _, sz := range c16Sizes(w.Tier) {
					for _, alpha := range []bool{false, true} {
						for op := 0; op < 2; op++ {
							if w.Expired() {
								return
							}
							big := sz[0] > 100
							c16Check(w, &c16Case{Prog: p, W: sz[0], H: sz[1], Alpha: alpha, Op: op, Rel: "a"})
							c16Check(w, &c16Case{Prog: p, W: sz[0], H: sz[1], Alpha: alpha, Op: op, Rel: "o"})
							if sz[0] <= 100 {
								c16Check(w, &c16Case{Prog: p, W: sz[0], H: sz[1], Alpha: alpha, Op: op, Rel: "t"})
								c16Check(w, &c16Case{Prog: p, W: sz[0], H: sz[1], Alpha: alpha, Op: op, Rel: "s"})
							}
							c16Check(w, &c16Case{Prog: p, W: sz[0], H: sz[1], Alpha: alpha, Op: op, Rel: "c"})
							c16Check(w, &c16Case{Prog: p, W: sz[0], H: sz[1], Alpha: alpha, Op: op, Rel: "r"})
							if sz[0] <= 100 {
								c16Check(w, &c16Case{Prog: p, W: sz[0], H: sz[1], Alpha: alpha, Op: op, Rel: "e"})
							}
							ks := []int{-5, -1, 2, 8}
							if w.Thorough && !big {
								ks = []int{-8, -6, -5, -4, -3, -2, -1, 1, 2, 3, 4, 5, 6, 8}
							}
							for _, k := range ks {
								_ = big
								c16Check(w, &c16Case{Prog: p, W: sz[0], H: sz[1], Alpha: alpha, Op: op, Rel: "b", K: k})
							}
						}
					}
				}
				return
			}
			p1 := one[u-n1]
			for _, p2 := range one {
				if w.Expired() {
					return
				}
				p := c16Prog{[]int{p1.Shapes[0], p2.Shapes[0]}, []int{p1.Fills[0], p2.Fills[0]}}
				szs := [][2]int{{64, 64}, {7, 7}}
				if w.Thorough {
					szs = append(szs, [2]int{40, 100}, [2]int{513, 9})
				}
				for _, sz := range szs {
					c16Check(w, &c16Case{Prog: p, W: sz[0], H: sz[1], Op: 1, Rel: "d"})
					c16Check(w, &c16Case{Prog: p, W: sz[0], H: sz[1], Op: 1, Rel: "a"})
					c16Check(w, &c16Case{Prog: p, W: sz[0], H: sz[1], Op: 0, Rel: "b", K: 2})
					c16Check(w, &c16Case{Prog: p, W: sz[0], H: sz[1], Alpha: true, Op: 1, Rel: "d"})
					c16Check(w, &c16Case{Prog: p, W: sz[0], H: sz[1], Op: 0, Rel: "c"})
					if sz[0] == 7 {
						c16Check(w, &c16Case{Prog: p, W: sz[0], H: sz[1], Op: 0, Rel: "e"})
					}
				}
			}
		},
		Replay: func(w *mc.W, data json.RawMessage) error {
			var cs c16Case
			if err := unmarshalCase(data, &cs); err != nil {
				return err
			}
			c16Check(w, &cs)
			return nil
		},
		Post: postDistinct(50),
	})
}

func c16Check(w *mc.W, cs *c16Case) {
	w.Eval()
	p := cs.Prog
	n := len(p.Shapes)
	rect0 := image.Rect(0, 0, cs.W, cs.H)
	op := draw.Over
	if cs.Op == 1 {
		op = draw.Src
	}
	fail := func(key, what string) {
		c := *cs
		c.Desc = fmt.Sprintf("program [%s] size %dx%d alpha=%v op=%v relation (%s) k=%d", p, cs.W, cs.H, cs.Alpha, op, cs.Rel, cs.K)
		w.Fail(key, c.Desc+": "+what, c)
	}
	// base render
	base, basePix := c16NewImg(cs.Alpha, rect0)
	c16Render(base, rect0, op, func(d ivg.Destination) { p.emit(d, 0, false, 0, n, true) })
	firstDiffPix := func(a, b []uint8) int {
		for i := range a {
			if i >= len(b) || a[i] != b[i] {
				return i
			}
		}
		return -1
	}
	switch cs.Rel {
	case "a", "o":
		mx, my := 7, 9
		if cs.Rel == "o" {
			mx, my = 0, 0 // the rectangle shares the image's origin but is narrower and shorter than it
		}
		bigR := image.Rect(0, 0, cs.W+mx+4, cs.H+my+4)
		big, bigPix := c16NewImg(cs.Alpha, bigR)
		for i := range *bigPix {
			(*bigPix)[i] = 0xab
		}
		rect := image.Rect(mx, my, mx+cs.W, my+cs.H)
		if op != draw.Src || p.gated() {
			// Over composes with what is there: start from the same (empty) content as the image of
			// its own. With Src the first path replaces the whole rectangle, so the sentinel content
			// is left in place and must not show through.
			draw.Draw(big, rect, image.Transparent, image.Point{}, draw.Src)
		}
		c16Render(big, rect, op, func(d ivg.Destination) { p.emit(d, 0, false, 0, n, true) })
		// compare region and margin
		for y := bigR.Min.Y; y < bigR.Max.Y; y++ {
			for x := bigR.Min.X; x < bigR.Max.X; x++ {
				in := image.Pt(x, y).In(rect)
				if cs.Alpha {
					got := big.(*image.Alpha).AlphaAt(x, y).A
					if in {
						if want := base.(*image.Alpha).AlphaAt(x-mx, y-my).A; got != want {
							fail("offset:pixels-differ", fmt.Sprintf("pixel (%d,%d) of the offset rectangle is %d, image of its own has %d", x-mx, y-my, got, want))
							return
						}
					} else if got != 0xab {
						fail("offset:outside-modified", fmt.Sprintf("pixel (%d,%d) outside the target rectangle was modified", x, y))
						return
					}
				} else {
					got := big.(*image.RGBA).RGBAAt(x, y)
					if in {
						if want := base.(*image.RGBA).RGBAAt(x-mx, y-my); got != want {
							fail("offset:pixels-differ", fmt.Sprintf("pixel (%d,%d) of the offset rectangle is %v, image of its own has %v", x-mx, y-my, got, want))
							return
						}
					} else if got != (color.RGBA{0xab, 0xab, 0xab, 0xab}) {
						fail("offset:outside-modified", fmt.Sprintf("pixel (%d,%d) outside the target rectangle was modified", x, y))
						return
					}
				}
			}
		}
	case "s":
		// the destination image's bounds do not start at the origin (as a sub-image's do not), and
		// the rasteriser is the plain literal over it
		ib := image.Rect(40, 30, 40+cs.W+9, 30+cs.H+7)
		var big draw.Image
		var bigPix *[]uint8
		if cs.Alpha {
			im := image.NewAlpha(ib)
			big, bigPix = im, &im.Pix
		} else {
			im := image.NewRGBA(ib)
			big, bigPix = im, &im.Pix
		}
		for i := range *bigPix {
			(*bigPix)[i] = 0xab
		}
		rect := image.Rect(43, 34, 43+cs.W, 34+cs.H)
		if op != draw.Src || p.gated() {
			draw.Draw(big, rect, image.Transparent, image.Point{}, draw.Src)
		}
		{
			vz := &vec.Rasterizer{Dst: big}
			vz.DrawOp = op
			var z render.Renderer
			z.SetRasterizer(vz, rect)
			p.emit(&z, 0, false, 0, n, true)
		}
		for y := ib.Min.Y; y < ib.Max.Y; y++ {
			for x := ib.Min.X; x < ib.Max.X; x++ {
				var got, want color.RGBA
				in := image.Pt(x, y).In(rect)
				if cs.Alpha {
					a := big.(*image.Alpha).AlphaAt(x, y).A
					got = color.RGBA{a, a, a, a}
					if in {
						b := base.(*image.Alpha).AlphaAt(x-rect.Min.X, y-rect.Min.Y).A
						want = color.RGBA{b, b, b, b}
					}
				} else {
					got = big.(*image.RGBA).RGBAAt(x, y)
					if in {
						want = base.(*image.RGBA).RGBAAt(x-rect.Min.X, y-rect.Min.Y)
					}
				}
				if !in {
					want = color.RGBA{0xab, 0xab, 0xab, 0xab}
				}
				if got != want {
					if in {
						fail("shifted-image:pixels-differ", fmt.Sprintf("pixel (%d,%d) of the rectangle inside an image with bounds %v is %v, image of its own has %v", x-rect.Min.X, y-rect.Min.Y, ib, got, want))
					} else {
						fail("shifted-image:outside-modified", fmt.Sprintf("pixel (%d,%d) outside the target rectangle was modified (image bounds %v)", x, y, ib))
					}
					return
				}
			}
		}
	case "t":
		// the same graphic at two places of one image, one Renderer and one rasteriser, the
		// rasteriser handed to SetRasterizer again for the second place (the caller re-arms DrawOp)
		bigR := image.Rect(0, 0, cs.W+6, 2*cs.H+5)
		big, bigPix := c16NewImg(cs.Alpha, bigR)
		for i := range *bigPix {
			(*bigPix)[i] = 0xab
		}
		r1 := image.Rect(1, 0, 1+cs.W, cs.H)
		r2 := image.Rect(5, cs.H+4, 5+cs.W, 2*cs.H+4)
		if op != draw.Src || p.gated() {
			draw.Draw(big, r1, image.Transparent, image.Point{}, draw.Src)
			draw.Draw(big, r2, image.Transparent, image.Point{}, draw.Src)
		}
		vz := vec.NewRasterizer(big)
		var z render.Renderer
		vz.DrawOp = op
		z.SetRasterizer(vz, r1)
		p.emit(&z, 0, false, 0, n, true)
		vz.DrawOp = op
		z.SetRasterizer(vz, r2)
		p.emit(&z, 0, false, 0, n, true)
		at := func(im draw.Image, x, y int) color.RGBA {
			if cs.Alpha {
				a := im.(*image.Alpha).AlphaAt(x, y).A
				return color.RGBA{a, a, a, a}
			}
			return im.(*image.RGBA).RGBAAt(x, y)
		}
		for y := bigR.Min.Y; y < bigR.Max.Y; y++ {
			for x := bigR.Min.X; x < bigR.Max.X; x++ {
				got := at(big, x, y)
				pt := image.Pt(x, y)
				switch {
				case pt.In(r1):
					if want := at(base, x-r1.Min.X, y-r1.Min.Y); got != want {
						fail("two-places:first-differs", fmt.Sprintf("pixel (%d,%d) of the first place is %v, image of its own has %v", x-r1.Min.X, y-r1.Min.Y, got, want))
						return
					}
				case pt.In(r2):
					if want := at(base, x-r2.Min.X, y-r2.Min.Y); got != want {
						fail("two-places:second-differs", fmt.Sprintf("pixel (%d,%d) of the second place is %v, image of its own has %v", x-r2.Min.X, y-r2.Min.Y, got, want))
						return
					}
				default:
					if got != (color.RGBA{0xab, 0xab, 0xab, 0xab}) {
						fail("two-places:outside-modified", fmt.Sprintf("pixel (%d,%d) outside both target rectangles was modified", x, y))
						return
					}
				}
			}
		}
	case "b":
		other, otherPix := c16NewImg(cs.Alpha, rect0)
		c16Render(other, rect0, op, func(d ivg.Destination) { p.emit(d, cs.K, false, 0, n, true) })
		if i := firstDiffPix(*basePix, *otherPix); i >= 0 {
			fail("scale:pixels-differ", fmt.Sprintf("picture scaled by 2^%d differs at byte %d (%d vs %d)", cs.K, i, (*otherPix)[i], (*basePix)[i]))
			return
		}
	case "c":
		other, otherPix := c16NewImg(cs.Alpha, rect0)
		c16Render(other, rect0, op, func(d ivg.Destination) { p.emit(d, 0, true, 0, n, true) })
		if i := firstDiffPix(*basePix, *otherPix); i >= 0 {
			fail("indirect-colours:pixels-differ", fmt.Sprintf("colours through palette/register/blend differ from direct colours at byte %d (%d vs %d)", i, (*otherPix)[i], (*basePix)[i]))
			return
		}
	case "e":
		// (c) for the graphic in its byte form: the indirectly coloured graphic and the directly
		// coloured one, both written by the Encoder and decoded into a Renderer
		var imgs [2]*[]uint8
		for v := 0; v < 2; v++ {
			var e encode.Encoder
			p.emit(&e, 0, v == 1, 0, n, true)
			b, err := e.Bytes()
			if err != nil {
				fail("encoded:error", fmt.Sprintf("Encoder rejects the graphic (indirect=%v): %v", v == 1, err))
				return
			}
			im, pix := c16NewImg(cs.Alpha, rect0)
			var derr error
			c16Render(im, rect0, op, func(d ivg.Destination) {
				if v == 1 && cs.Op == 1 {
					// (with the Src operator only: an option would also repair a suggested entry that
					// the Encoder wrote wrongly, which the plain half of the cases must keep seeing)
					// the suggested entry 1 given again as an option, in another colour model (same colour)
					derr = decode.Decode(d, b, decode.WithColorAt(1, color.NRGBA{0xff, 0xff, 0xff, 0x80}), decode.WithColorAt(7, color.RGBA64{0x80ab, 0x40cd, 0x20ef, 0xffff})) // low bytes unlike the high ones
				} else {
					derr = decode.Decode(d, b)
				}
			})
			if derr != nil {
				fail("encoded:error", fmt.Sprintf("Decode of the encoded graphic (indirect=%v) fails: %v", v == 1, derr))
				return
			}
			imgs[v] = pix
		}
		if i := firstDiffPix(*imgs[0], *imgs[1]); i >= 0 {
			fail("indirect-colours-encoded:pixels-differ", fmt.Sprintf("encoded graphic with colours through palette/register/blend differs from the encoded graphic with direct colours at byte %d (%d vs %d)", i, (*imgs[1])[i], (*imgs[0])[i]))
			return
		}
	case "r":
		// (c)/(a) on a Renderer that rendered another graphic with the same palette before: colours
		// through palette / registers (incl. the registers' initial content) must still equal direct colours
		other, otherPix := c16NewImg(cs.Alpha, rect0)
		scratch, _ := c16NewImg(cs.Alpha, image.Rect(0, 0, 9, 9))
		var z render.Renderer
		vs := vec.NewRasterizer(scratch)
		z.SetRasterizer(vs, scratch.Bounds())
		z.Reset(c16VB, c16Palette)
		for i := 0; i < 64; i++ {
			z.SetCReg(0, true, ivg.RGBAColor(color.RGBA{uint8(i), 0x7f, 0, 0xff}))
			z.SetNReg(0, true, 0.25)
		}
		z.SetCSel(7)
		c16Shapes[0].draw(&z, 0, 1)
		vz := vec.NewRasterizer(other)
		vz.DrawOp = op
		z.SetRasterizer(vz, rect0)
		p.emit(&z, 0, true, 0, n, true)
		if i := firstDiffPix(*basePix, *otherPix); i >= 0 {
			fail("reused-renderer:pixels-differ", fmt.Sprintf("indirect colours on a Renderer that rendered another graphic with the same palette differ from direct colours on a fresh one at byte %d (%d vs %d)", i, (*otherPix)[i], (*basePix)[i]))
			return
		}
	case "d":
		other, otherPix := c16NewImg(cs.Alpha, rect0)
		c16Render(other, rect0, draw.Src, func(d ivg.Destination) { p.emit(d, 0, false, 0, 1, true) })
		// second path by a fresh Renderer + rasteriser with source-over; registers re-created by the fill itself
		c16Render(other, rect0, draw.Over, func(d ivg.Destination) { p.emit(d, 0, false, 1, n, true) })
		if i := firstDiffPix(*basePix, *otherPix); i >= 0 {
			fail("operator:first-path-only", fmt.Sprintf("[P1,P2] with Src differs from P1 with Src then P2 with Over at byte %d (%d vs %d)", i, (*basePix)[i], (*otherPix)[i]))
			return
		}
	}
	h := mc.NewHasher()
	h.Bytes(*basePix)
	zero, nonzero := false, false
	for _, b := range *basePix {
		if b == 0 {
			zero = true
		} else {
			nonzero = true
		}
	}
	w.Outcome(h.Sum(), zero && nonzero)
	if w.WantSample() && cs.Rel == "b" {
		w.Sample(map[string]any{"program": p.String(), "size": [2]int{cs.W, cs.H}, "relation": cs.Rel, "k": cs.K, "nonzero_pixels": bytes.Count(*basePix, []byte{0xff})})
	}
}
