package props

import (
	"bytes"
	"fmt"
	"image/color"
	"math"
	"strconv"
	"strings"

	"github.com/reactivego/ivg/decode"
	"verif/gen"
	"verif/mc"
	"verif/rec"
	"verif/ref"
)

// C11 — the disassembly is a faithful, byte-complete listing of what decodes.

func init() {
	mc.Register(&mc.Check{
		ID:    "C11",
		Level: "exploration",
		Rule: "engines B+F (the input space of C02/C03). For every input: Disassemble fails iff Decode fails, with an equal error; on success the hex column concatenated equals the input, " +
			"non-indented instruction lines = delivered calls other than Reset, and every printed mnemonic, ADJ, increment marker, selector, repeat count, number, angle, colour, arc flag and metadata value equals what Decode delivered to a recorder. " +
			"distinct = hash of the sequence of line kinds; non-trivial = successful listing with at least one drawing operation",
		Assumptions: []string{"%g/%+g of a float32 round-trips through ParseFloat(s,32) (NaN payloads excepted)", "a colour printed as 'nonsensical color' carries no value and is checked through the byte column only"},
		Units:       func(tier string) int { return len(genUnits(tier)) },
		Run: func(w *mc.W, u int) {
			unit := genUnits(w.Tier)[u]
			st := &c11State{}
			hist := &byteHistory
			unit.Each(func(b []byte) bool {
				b = hist.begin(w, b, unit.Name)
				c11Check(w, st, b, unit.Name)
				hist.end(histOK)
				return !w.Expired()
			})
		},
		Replay: bytesReplay(func() func(w *mc.W, b []byte, unit string) {
			st := &c11State{}
			return func(w *mc.W, b []byte, unit string) { c11Check(w, st, b, unit) }
		}),
		Post: postDistinct(100),
	})
}

// c11Other: a small valid graphic (its prefix without the last 3 bytes is invalid)
var c11Other = append(append([]byte{}, gen.Magic...), 0x00, 0x05, 0x9b, 0x30, 0x66, 0x07, 0x80, 0xc0, 0x70, 0x90, 0x01, 0x84, 0x86, 0x88, 0x8a, 0xe3, 0x80, 0x7e, 0x40, 0x82, 0x84, 0xe1)

var c11OtherText []byte

type c11State struct {
	rd  rec.Dest
	hex []byte
}

type disLine struct {
	hex  []byte
	text string
}

func parseHexField(f string) ([]byte, bool) {
	// "xx xx xx xx   " : 14 columns
	var out []byte
	i := 0
	for i < len(f) {
		if f[i] == ' ' {
			i++
			continue
		}
		if i+2 > len(f) {
			return nil, false
		}
		v, err := strconv.ParseUint(f[i:i+2], 16, 8)
		if err != nil {
			return nil, false
		}
		out = append(out, byte(v))
		i += 2
		if i < len(f) && f[i] != ' ' {
			return nil, false
		}
	}
	return out, true
}

var drawMnemonics = map[string]rec.Method{
	"L (absolute lineTo)": rec.MAbsL, "l (relative lineTo)": rec.MRelL,
	"T (absolute smooth quadTo)": rec.MAbsT, "t (relative smooth quadTo)": rec.MRelT,
	"Q (absolute quadTo)": rec.MAbsQ, "q (relative quadTo)": rec.MRelQ,
	"S (absolute smooth cubeTo)": rec.MAbsS, "s (relative smooth cubeTo)": rec.MRelS,
	"C (absolute cubeTo)": rec.MAbsC, "c (relative cubeTo)": rec.MRelC,
	"A (absolute arcTo)": rec.MAbsA, "a (relative arcTo)": rec.MRelA,
}

var fixedMnemonics = map[string]rec.Method{
	"z (closePath); end path":            rec.MEndPath,
	"z (closePath); M (absolute moveTo)": rec.MAbsMove,
	"z (closePath); m (relative moveTo)": rec.MRelMove,
	"H (absolute horizontal lineTo)":     rec.MAbsH,
	"h (relative horizontal lineTo)":     rec.MRelH,
	"V (absolute vertical lineTo)":       rec.MAbsV,
	"v (relative vertical lineTo)":       rec.MRelV,
}

func sameNum(text string, want float32) bool {
	text = strings.TrimSpace(text)
	if text == "+NaN" || text == "-NaN" { // %+g prints a sign that ParseFloat does not take
		text = "NaN"
	}
	f, err := strconv.ParseFloat(text, 32)
	if err != nil {
		return false
	}
	g := float32(f)
	if want != want {
		return g != g
	}
	return math.Float32bits(g) == math.Float32bits(want)
}

func color1Text(x byte) string { return colorText(ref.Color1(x)) }

// colorText renders a colour the way the listing is documented to (from the
// reference colour, not from the implementation's String method).
func colorText(c ref.Color) string {
	switch c.Kind {
	case ref.KRGBA:
		d := c.D
		if ref.Premul(d) {
			return fmt.Sprintf("RGBA %02x%02x%02x%02x", d.R, d.G, d.B, d.A)
		}
		if ref.IsGradient(d) {
			shape := [2]string{"linear", "radial"}[(d.B>>6)&1]
			spread := [4]string{"none", "pad", "reflect", "repeat"}[d.G>>6]
			return fmt.Sprintf("gradient (NSTOPS=%d, CBASE=%d, NBASE=%d, %s, %s)", d.R&0x3f, d.G&0x3f, d.B&0x3f, shape, spread)
		}
		return "nonsensical color"
	case ref.KPal:
		return fmt.Sprintf("customPalette[%d]", c.D.R)
	case ref.KCReg:
		return fmt.Sprintf("CREG[%d]", c.D.R)
	}
	return fmt.Sprintf("blend (%d:%d) (%s:%s)", 255-int(c.D.R), c.D.R, color1Text(c.D.G), color1Text(c.D.B))
}

func c11Check(w *mc.W, st *c11State, b []byte, unit string) {
	w.Eval()
	fail := func(key, what string) {
		w.Fail(key, fmt.Sprintf("input %s: %s", hexShort(b), what), mkBytesCase(b, unit))
	}
	st.rd.ResetLog()
	derr, pnc, stack := safeDecode(&st.rd, b)
	if pnc != nil {
		fail("panic:decode:"+panicKey(stack), fmt.Sprintf("Decode panicked: %v", pnc))
		return
	}
	histOK = derr == nil
	var text []byte
	var serr error
	if pnc, stack := guard(func() { text, serr = decode.Disassemble(b) }); pnc != nil {
		fail("panic:disassemble:"+panicKey(stack), fmt.Sprintf("Disassemble panicked: %v", pnc))
		return
	}
	// the listing belongs to the caller: later Disassemble calls (of a valid and of an invalid
	// input) leave it as it was returned
	if text != nil {
		keep := append([]byte(nil), text...)
		other, oerr := decode.Disassemble(c11Other)
		decode.Disassemble(c11Other[:len(c11Other)-3])
		if !bytes.Equal(text, keep) {
			fail("listing-overwritten", "the listing returned for this input was modified by later Disassemble calls on other inputs")
			return
		}
		// ... and the listing of that other graphic is the same after whatever input (the first one
		// obtained in this process is the reference; the listing itself is judged like any other when
		// the enumeration reaches that graphic)
		if c11OtherText == nil && oerr == nil {
			c11OtherText = append([]byte{}, other...)
		} else if oerr != nil || !bytes.Equal(other, c11OtherText) {
			fail("listing-depends-on-previous-input", fmt.Sprintf("the listing of a fixed graphic obtained right after this input differs from the one obtained before (err %v)", oerr))
			return
		}
	}
	h := mc.NewHasher()
	if (serr == nil) != (derr == nil) || (serr != nil && serr != derr) {
		fail("error-mismatch", fmt.Sprintf("Disassemble error %v, Decode error %v", serr, derr))
		return
	}
	if serr != nil {
		if text != nil {
			fail("text-with-error", "Disassemble returned both text and an error")
		}
		h.Str(serr.Error())
		w.Outcome(h.Sum(), false)
		return
	}
	w.Trace()
	calls := st.rd.Calls
	// split lines
	var lines []disLine
	st.hex = st.hex[:0]
	for _, l := range bytes.Split(text, []byte("\n")) {
		if len(l) == 0 {
			continue
		}
		if len(l) < 14 {
			fail("short-line", fmt.Sprintf("line %q shorter than the 14-column byte field", l))
			return
		}
		hx, ok := parseHexField(string(l[:14]))
		if !ok {
			fail("bad-hex-field", fmt.Sprintf("unparsable byte field in line %q", l))
			return
		}
		st.hex = append(st.hex, hx...)
		lines = append(lines, disLine{hx, string(l[14:])})
	}
	if !bytes.Equal(st.hex, b) {
		i := 0
		for i < len(st.hex) && i < len(b) && st.hex[i] == b[i] {
			i++
		}
		fail("hex-column", fmt.Sprintf("byte column (%d bytes) differs from the input (%d bytes) at offset %d", len(st.hex), len(b), i))
		return
	}
	// header
	li := 0
	next := func() (disLine, bool) {
		if li < len(lines) {
			li++
			return lines[li-1], true
		}
		return disLine{}, false
	}
	bad := func(what string) {
		ln := ""
		if li > 0 && li <= len(lines) {
			ln = lines[li-1].text
		}
		fail("listing:"+strings.SplitN(what, ":", 2)[0], fmt.Sprintf("line %d %q: %s", li, ln, what))
	}
	l, _ := next()
	if l.text != "IconVG Magic identifier" {
		bad("header: magic line")
		return
	}
	l, _ = next()
	var nChunks int
	if _, err := fmt.Sscanf(l.text, "Number of metadata chunks: %d", &nChunks); err != nil {
		bad("header: chunk count line")
		return
	}
	if len(calls) == 0 || calls[0].M != rec.MReset {
		fail("no-reset", "Decode succeeded without delivering Reset")
		return
	}
	reset := calls[0]
	for c := 0; c < nChunks; c++ {
		l, _ = next()
		var n int
		if _, err := fmt.Sscanf(l.text, "Metadata chunk length: %d", &n); err != nil {
			bad("header: chunk length line")
			return
		}
		l, _ = next()
		var mid int
		if _, err := fmt.Sscanf(l.text, "Metadata Identifier: %d", &mid); err != nil {
			bad("header: MID line")
			return
		}
		h.Byte(byte(0xd0 + mid))
		switch mid {
		case 0:
			vb := [4]float32{reset.VB.MinX, reset.VB.MinY, reset.VB.MaxX, reset.VB.MaxY}
			for i := 0; i < 4; i++ {
				l, _ = next()
				if !strings.HasPrefix(l.text, "    ") || !sameNum(l.text, vb[i]) {
					bad(fmt.Sprintf("viewbox: printed %q, Reset received %g", l.text, vb[i]))
					return
				}
			}
		case 1:
			l, _ = next()
			var n, k int
			if _, err := fmt.Sscanf(l.text, "    %d palette colors, %d bytes per color", &n, &k); err != nil {
				bad("palette: header line")
				return
			}
			if len(l.hex) != 1 || int(l.hex[0]&0x3f)+1 != n || int(l.hex[0]>>6)+1 != k {
				bad("palette: header values do not match the header byte")
				return
			}
			for i := 0; i < n; i++ {
				l, _ = next()
				var c color.RGBA
				if reset.Pal != nil {
					c = reset.Pal[i]
				}
				want := fmt.Sprintf("    RGBA %02x%02x%02x%02x", c.R, c.G, c.B, c.A)
				if l.text != want {
					bad(fmt.Sprintf("palette: entry %d printed %q, Reset received %q", i, l.text, want))
					return
				}
			}
		default:
			bad("header: unknown MID in listing")
			return
		}
	}
	// instructions
	nInstr := 0
	for _, x := range lines[li:] {
		if !strings.HasPrefix(x.text, " ") {
			nInstr++
		}
	}
	if nInstr != len(calls)-1 {
		fail("line-count", fmt.Sprintf("%d instruction lines but %d delivered operations", nInstr, len(calls)-1))
		return
	}
	numLine := func(want float32, what string) bool {
		l, ok := next()
		if !ok || !strings.HasPrefix(l.text, "    ") || !sameNum(l.text, want) {
			bad(fmt.Sprintf("operand: %s printed %q, decoder delivered %s", what, l.text, rec.F(want)))
			return false
		}
		return true
	}
	runLeft, runKind := 0, rec.MNone
	nontrivial := false
	for ci := 1; ci < len(calls); ci++ {
		c := &calls[ci]
		l, ok := next()
		if !ok || strings.HasPrefix(l.text, " ") {
			bad("structure: expected an instruction line for " + c.String())
			return
		}
		h.Byte(byte(c.M))
		switch c.M {
		case rec.MSetCSel, rec.MSetNSel:
			var v int
			f := "Set CSEL = %d"
			if c.M == rec.MSetNSel {
				f = "Set NSEL = %d"
			}
			if _, err := fmt.Sscanf(l.text, f, &v); err != nil || v != int(c.Adj) || l.text != fmt.Sprintf(f, v) {
				bad(fmt.Sprintf("selector: printed %q, decoder delivered %s", l.text, c))
				return
			}
		case rec.MSetCReg:
			k, d := rec.ColorParts(c.C)
			rc := ref.Color{Kind: k, D: d}
			var adj, nb int
			incr := strings.HasSuffix(l.text, "; CSEL++")
			t := strings.TrimSuffix(l.text, "; CSEL++")
			if _, err := fmt.Sscanf(t, "Set CREG[CSEL-%d] to a %d byte", &adj, &nb); err != nil {
				bad("creg: unparsable instruction line")
				return
			}
			if adj != int(c.Adj) || incr != c.Incr {
				bad(fmt.Sprintf("creg: printed ADJ=%d incr=%v, decoder delivered %s", adj, incr, c))
				return
			}
			if nb != len(l.hex)-1+len(lines[li].hex) && nb != len(lines[li].hex) {
				bad("creg: printed byte count does not match the operand bytes")
				return
			}
			ol, _ := next()
			want := "    " + colorText(rc)
			if ol.text != want {
				bad(fmt.Sprintf("creg: colour printed %q, decoder delivered %s (%q)", ol.text, rec.ColorString(c.C), want))
				return
			}
		case rec.MSetNReg:
			var adj int
			var typ string
			incr := strings.HasSuffix(l.text, "; NSEL++")
			t := strings.TrimSuffix(l.text, "; NSEL++")
			if _, err := fmt.Sscanf(t, "Set NREG[NSEL-%d] to a %s number", &adj, &typ); err != nil {
				bad("nreg: unparsable instruction line")
				return
			}
			if adj != int(c.Adj) || incr != c.Incr {
				bad(fmt.Sprintf("nreg: printed ADJ=%d incr=%v, decoder delivered %s", adj, incr, c))
				return
			}
			if !numLine(c.A[0], "NREG value") {
				return
			}
		case rec.MSetLOD:
			if l.text != "Set LOD" {
				bad("lod: instruction line")
				return
			}
			if !numLine(c.A[0], "LOD0") || !numLine(c.A[1], "LOD1") {
				return
			}
		case rec.MStartPath:
			var adj int
			if _, err := fmt.Sscanf(l.text, "Start path, filled with CREG[CSEL-%d]; M (absolute moveTo)", &adj); err != nil || adj != int(c.Adj) {
				bad(fmt.Sprintf("startpath: printed %q, decoder delivered %s", l.text, c))
				return
			}
			if !numLine(c.A[0], "x") || !numLine(c.A[1], "y") {
				return
			}
			runLeft = 0
		default:
			nontrivial = true
			if m, ok := fixedMnemonics[l.text]; ok {
				if m != c.M {
					bad(fmt.Sprintf("mnemonic: printed %q, decoder delivered %s", l.text, c))
					return
				}
				if runLeft != 0 {
					bad("reps: a run ended before its printed repeat count")
					return
				}
				for i := 0; i < rec.NArgs[c.M]; i++ {
					if !numLine(c.A[i], "coordinate") {
						return
					}
				}
				break
			}
			// repeated verbs
			j := strings.LastIndex(l.text, ", ")
			if j < 0 {
				bad("mnemonic: unknown instruction line")
				return
			}
			m, ok := drawMnemonics[l.text[:j]]
			if !ok || m != c.M {
				bad(fmt.Sprintf("mnemonic: printed %q, decoder delivered %s", l.text, c))
				return
			}
			rest := l.text[j+2:]
			if rest == "implicit" {
				if runLeft <= 0 || runKind != m || len(l.hex) != 0 {
					bad("reps: implicit line outside a run")
					return
				}
				runLeft--
			} else {
				var reps int
				if _, err := fmt.Sscanf(rest, "%d reps", &reps); err != nil || reps < 1 {
					bad("reps: unparsable repeat count")
					return
				}
				if runLeft != 0 {
					bad("reps: a run ended before its printed repeat count")
					return
				}
				runLeft, runKind = reps-1, m
			}
			if m == rec.MAbsA || m == rec.MRelA {
				if !numLine(c.A[0], "rx") || !numLine(c.A[1], "ry") {
					return
				}
				al, _ := next()
				fs := strings.Fields(al.text)
				if len(fs) < 1 || !sameNum(fs[0], c.A[2]) {
					bad(fmt.Sprintf("operand: angle printed %q, decoder delivered %s", al.text, rec.F(c.A[2])))
					return
				}
				fl, _ := next()
				var raw uint32
				var la, sw int
				if _, err := fmt.Sscanf(strings.TrimSpace(fl.text), "%v (largeArc=%d, sweep=%d)", &raw, &la, &sw); err != nil || (la != 0) != c.LA || (sw != 0) != c.SW {
					bad(fmt.Sprintf("operand: arc flags printed %q, decoder delivered largeArc=%v sweep=%v", fl.text, c.LA, c.SW))
					return
				}
				if !numLine(c.A[3], "x") || !numLine(c.A[4], "y") {
					return
				}
			} else {
				for i := 0; i < rec.NArgs[m]; i++ {
					if !numLine(c.A[i], "coordinate") {
						return
					}
				}
			}
		}
	}
	if li != len(lines) {
		li++
		bad("structure: trailing lines after the last delivered operation")
		return
	}
	w.Outcome(h.Sum(), nontrivial)
	if nontrivial && w.WantSample() && len(b) < 30 {
		w.Sample(map[string]any{"unit": unit, "hex": hexShort(b), "listing": string(text)})
	}
}
