package props

import (
	"fmt"
	"math"

	"verif/rec"
	"verif/ref"
)

// Round-trip comparator shared by C01, C07, C10: compares an original call
// with the call obtained after encode -> decode under the tolerance that C01
// states.

func sameNumeric(a, b float32) bool { return a == b || (a != a && b != b) }

// cmp30 judges a number that goes through the 30-bit float form.
func cmp30(orig, got float32) string {
	switch {
	case orig != orig:
		if isFinite32(got) {
			return "NaN became finite"
		}
	case math.IsInf(float64(orig), 0):
		if got != orig {
			return "infinity not preserved"
		}
	default:
		if !isFinite32(got) {
			return "finite became non-finite"
		}
		if orig == 0 && got == 0 {
			return ""
		}
		if (f32b(orig)^f32b(got))&0x80000000 != 0 {
			return "sign changed"
		}
		if d := ref.UlpDiff(orig, got); d > 4 {
			return fmt.Sprintf("off by %d ulp", d)
		}
		if f32b(orig)&3 == 0 && orig != got {
			return "value representable in the 4-byte form changed"
		}
	}
	return ""
}

func cmpCoord(orig, got float32, hires bool) string {
	if !hires && orig >= -128 && orig < 128 {
		if !ref.Nearest64(orig, got) {
			return "not the nearest multiple of 1/64"
		}
		return ""
	}
	if ref.CoordShortLen(orig) < 4 {
		if !(orig == got) {
			return "coordinate exactly representable in a short form changed"
		}
		return ""
	}
	return cmp30(orig, got)
}

func cmpReal(orig, got float32) string {
	if ref.RealShortLen(orig) < 4 {
		if !(orig == got) {
			return "real exactly representable in a short form changed"
		}
		return ""
	}
	return cmp30(orig, got)
}

// cmpNReg: a number register takes the shortest of the real, coordinate and
// zero-to-one encodings. Short real and coordinate forms are exact by
// construction of the format. The zero-to-one encoder is not required to
// recognise every value its short forms decode to (C08 scopes exactness to
// "the form chosen" and minimality to naturals, reals and coordinates; the
// repository's golden files pin 1/30 to a 4-byte real), so for the remaining
// values the 30-bit tolerance applies and C08 judges the form actually chosen.
func cmpNReg(orig, got float32) string {
	if ref.RealShortLen(orig) < 4 || ref.CoordShortLen(orig) < 4 {
		if !(orig == got) {
			return "number exactly representable in a short form changed"
		}
		return ""
	}
	if orig == got {
		return ""
	}
	if isFinite32(orig) && isFinite32(got) && ref.UlpDiff(orig, got) <= 4 {
		return ""
	}
	return cmp30(orig, got)
}

func cmpAngle(orig, got float32) string {
	if orig != orig || math.IsInf(float64(orig), 0) {
		if isFinite32(got) {
			return "non-finite angle became finite"
		}
		return ""
	}
	g := float64(orig) - math.Floor(float64(orig))
	d := math.Abs(float64(got) - g)
	if d > 0.5 {
		d = 1 - d
	}
	if !(d <= 1.0/(1<<21)) {
		return fmt.Sprintf("angle off by %g turns", d)
	}
	return ""
}

// cmpCall returns "" if got is an acceptable round trip of orig.
func cmpCall(orig, got *rec.Call, hires bool) string {
	if orig.M != got.M {
		return "operation changed"
	}
	if orig.Adj != got.Adj || orig.Incr != got.Incr {
		return "ADJ/selector/increment changed"
	}
	if orig.LA != got.LA || orig.SW != got.SW {
		return "arc flags changed"
	}
	if orig.C != got.C {
		return "colour changed"
	}
	switch orig.M {
	case rec.MReset:
		o, g := orig.VB, got.VB
		for i, p := range [][2]float32{{o.MinX, g.MinX}, {o.MinY, g.MinY}, {o.MaxX, g.MaxX}, {o.MaxY, g.MaxY}} {
			if s := cmpCoord(p[0], p[1], true); s != "" {
				return fmt.Sprintf("viewBox[%d]: %s", i, s)
			}
		}
		if orig.Pal != nil && got.Pal != nil && *orig.Pal != *got.Pal {
			return "palette changed"
		}
	case rec.MSetNReg:
		if s := cmpNReg(orig.A[0], got.A[0]); s != "" {
			return "NREG value: " + s
		}
	case rec.MSetLOD:
		for i := 0; i < 2; i++ {
			if s := cmpReal(orig.A[i], got.A[i]); s != "" {
				return fmt.Sprintf("LOD%d: %s", i, s)
			}
		}
	case rec.MAbsA, rec.MRelA:
		for _, i := range []int{0, 1, 3, 4} {
			if s := cmpCoord(orig.A[i], got.A[i], hires); s != "" {
				return fmt.Sprintf("arc operand %d: %s", i, s)
			}
		}
		if s := cmpAngle(orig.A[2], got.A[2]); s != "" {
			return s
		}
	default:
		for i := 0; i < rec.NArgs[orig.M]; i++ {
			if s := cmpCoord(orig.A[i], got.A[i], hires); s != "" {
				return fmt.Sprintf("operand %d: %s", i, s)
			}
		}
	}
	return ""
}

// cmpCalls compares two call lists; returns index and reason of the first
// unacceptable difference, or -1.
func cmpCalls(orig, got []rec.Call, hires bool) (int, string) {
	n := len(orig)
	if len(got) < n {
		n = len(got)
	}
	for i := 0; i < n; i++ {
		if s := cmpCall(&orig[i], &got[i], hires); s != "" {
			return i, s
		}
	}
	if len(orig) != len(got) {
		return n, fmt.Sprintf("%d operations became %d", len(orig), len(got))
	}
	return -1, ""
}
