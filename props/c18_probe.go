//go:build verifsched

package props

import (
	"fmt"

	"verif/bodies"
	"verif/mc"
	"verif/sched"
)

func init() {
	mc.RegisterCommand("c18-steps", func(args []string) int {
		sh := bodies.NewShared()
		for bi, b := range bodies.Bodies {
			for g := 0; g < 3; g++ {
				B, gg := b, g
				e := sched.Run([]func() string{func() string { return B.Run(sh, gg) }}, nil, nil, true)
				kinds := map[int32]int{}
				for _, s := range e.Sites {
					kinds[s]++
				}
				fmt.Printf("body %d %-18s g%d steps=%d distinct_sites=%d\n", bi, b.Name, g, e.Steps, len(kinds))
			}
		}
		return 0
	})
}
