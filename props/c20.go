package props

import (
	"bytes"
	"encoding/json"
	"fmt"
	"math"
	"os"
	"path/filepath"
	"strconv"
	"strings"

	"github.com/reactivego/ivg"
	"github.com/reactivego/ivg/decode"
	"github.com/reactivego/ivg/generate"
	"github.com/reactivego/ivg/mdicons"
	"golang.org/x/image/math/f32"
	"verif/mc"
	"verif/rec"
	"verif/ref"
)

// C20 — SVG path-data front ends. Engine B over the two dialect grammars.

type c20Tok struct {
	s string
	v float64
}

var c20Forms = []c20Tok{{"1", 1}, {"-2", -2}, {"+3", 3}, {".5", .5}, {"-.25", -.25}, {"10.5", 10.5}, {"0", 0}, {"007", 7}, {"+12.5", 12.5}, {"-0.75", -0.75}, {"+.5", .5},
	{"3.00000000000000000000", 3}, {"-0.1250000000000000000000000", -0.125}, {"000000000000000000000002.5", 2.5}} // 20 and more digits

// command of the structured description
type c20Cmd struct {
	Verb   byte       `json:"verb"` // MmLlHhVvCcSsQqTtAa, or 'z' for a sub-path join (followed by a move)
	Groups [][]c20Num `json:"groups"`
}
type c20Num struct {
	S   string  `json:"s"`
	V   float64 `json:"v"`
	Sep string  `json:"sep"` // separator *before* this number ("" directly after the verb)
}

func c20Arity(verb byte) int {
	switch verb {
	case 'H', 'h', 'V', 'v':
		return 1
	case 'L', 'l', 'M', 'm', 'T', 't':
		return 2
	case 'Q', 'q', 'S', 's':
		return 4
	case 'C', 'c':
		return 6
	case 'A', 'a':
		return 7
	}
	return 0
}

// transforms of the Generator
var c20Transforms = []struct {
	name string
	tf   []generate.Aff3
}{
	{"none", nil},
	{"Scale(2)", []generate.Aff3{generate.Scale(2)}},
	{"Scale(2,2)*Translate(-32,-32)", []generate.Aff3{generate.Scale(2, 2), generate.Translate(-32, -32)}},
	{"Scale(1.5,-0.5)", []generate.Aff3{generate.Scale(1.5, -0.5)}},
	{"Translate(3,4)*Scale(0.5,4)*Translate(-1,1)", []generate.Aff3{generate.Translate(3, 4), generate.Scale(0.5, 4), generate.Translate(-1, 1)}},
	{"Scale(1,-1)*Translate(0,-8)", []generate.Aff3{generate.Scale(1, -1), generate.Translate(0, -8)}}, // a flip: x scale exactly 1
}

var c20Conv = []struct {
	size    float32
	off     f32.Vec2
	outSize float32
}{{48, f32.Vec2{0, 0}, 48}, {24, f32.Vec2{0, 0}, 48}, {48, f32.Vec2{0, 0}, 64}, {24, f32.Vec2{2, -1}, 48}}

type c20Case struct {
	Dialect string   `json:"dialect"` // generator | converter | concat | file
	Cmds    []c20Cmd `json:"cmds,omitempty"`
	TF      int      `json:"transform"`
	Adj     uint8    `json:"adj"`
	TrailZ  bool     `json:"trailing_z"`
	Concat  [3]int   `json:"concat,omitempty"`
	File    *c20File `json:"file,omitempty"`
	Text    string   `json:"text,omitempty"`
}

// ---- string and expectation builders -------------------------------------------

func c20String(cmds []c20Cmd, dialect string, trailZ bool, spaceBeforeVerb bool) string {
	var sb strings.Builder
	for ci, c := range cmds {
		if c.Verb == 'z' {
			sb.WriteByte('z')
			continue
		}
		if spaceBeforeVerb && ci > 0 && dialect == "converter" {
			sb.WriteByte(' ')
		}
		sb.WriteByte(c.Verb)
		for _, g := range c.Groups {
			for _, n := range g {
				sb.WriteString(n.Sep)
				sb.WriteString(n.S)
			}
		}
	}
	if dialect == "generator" || trailZ {
		sb.WriteByte('z')
	}
	return sb.String()
}

// c20Expect builds the expected calls. xf maps (verb class, group values) to
// transformed float64 arguments plus the magnitude of the largest term.
type c20Xform func(verb byte, abs bool, vals []float64) (out []float64, mags []float64)

func c20Expect(cmds []c20Cmd, adj uint8, xf c20Xform) (calls []rec.Call, mags [][]float64) {
	first := true
	for _, c := range cmds {
		if c.Verb == 'z' {
			continue
		}
		for gi, g := range c.Groups {
			verb := c.Verb
			if gi > 0 { // implicit repetition; after a move the extra groups are lines
				if verb == 'M' {
					verb = 'L'
				} else if verb == 'm' {
					verb = 'l'
				}
			}
			vals := make([]float64, len(g))
			for i := range g {
				vals[i] = g[i].V
			}
			abs := verb >= 'A' && verb <= 'Z'
			var call rec.Call
			if first {
				// the first move starts the path (a leading m is absolute)
				out, mg := xf('M', true, vals)
				call = rec.Call{M: rec.MStartPath, Adj: adj, A: [6]float32{float32(out[0]), float32(out[1])}}
				calls, mags = append(calls, call), append(mags, mg)
				first = false
				continue
			}
			out, mg := xf(verb, abs, vals)
			set := func(m rec.Method) {
				call = rec.Call{M: m}
				for i := range out {
					call.A[i] = float32(out[i])
				}
			}
			switch verb {
			case 'M':
				set(rec.MAbsMove)
			case 'm':
				set(rec.MRelMove)
			case 'L':
				set(rec.MAbsL)
			case 'l':
				set(rec.MRelL)
			case 'H':
				set(rec.MAbsH)
			case 'h':
				set(rec.MRelH)
			case 'V':
				set(rec.MAbsV)
			case 'v':
				set(rec.MRelV)
			case 'T':
				set(rec.MAbsT)
			case 't':
				set(rec.MRelT)
			case 'Q':
				set(rec.MAbsQ)
			case 'q':
				set(rec.MRelQ)
			case 'S':
				set(rec.MAbsS)
			case 's':
				set(rec.MRelS)
			case 'C':
				set(rec.MAbsC)
			case 'c':
				set(rec.MRelC)
			case 'A', 'a':
				call = rec.Call{M: rec.MAbsA, LA: vals[3] != 0, SW: vals[4] != 0}
				if verb == 'a' {
					call.M = rec.MRelA
				}
				call.A = [6]float32{float32(out[0]), float32(out[1]), float32(out[2]), float32(out[5]), float32(out[6])}
				mg = []float64{mg[0], mg[1], mg[2], mg[5], mg[6]}
			}
			calls, mags = append(calls, call), append(mags, mg)
		}
	}
	calls = append(calls, rec.Call{M: rec.MEndPath})
	mags = append(mags, nil)
	return
}

// generator transform: absolute => full transform, relative => scale only,
// H/V => matching axis, arc radii => scale, flags unchanged, rotation/360.
func c20GenXform(tf []generate.Aff3) c20Xform {
	// float64 composition: apply factors in order
	m := [6]float64{1, 0, 0, 0, 1, 0}
	for _, f := range tf {
		b := [6]float64{float64(f[0]), float64(f[1]), float64(f[2]), float64(f[3]), float64(f[4]), float64(f[5])}
		m = [6]float64{
			b[0]*m[0] + b[1]*m[3], b[0]*m[1] + b[1]*m[4], b[0]*m[2] + b[1]*m[5] + b[2],
			b[3]*m[0] + b[4]*m[3], b[3]*m[1] + b[4]*m[4], b[3]*m[2] + b[4]*m[5] + b[5],
		}
	}
	none := len(tf) == 0
	return func(verb byte, abs bool, v []float64) ([]float64, []float64) {
		out := make([]float64, len(v))
		mg := make([]float64, len(v))
		px := func(x float64, full bool) (float64, float64) {
			if none {
				return x, math.Abs(x)
			}
			if full {
				return x*m[0] + m[2], math.Max(math.Abs(x*m[0]), math.Abs(m[2]))
			}
			return x * m[0], math.Abs(x * m[0])
		}
		py := func(y float64, full bool) (float64, float64) {
			if none {
				return y, math.Abs(y)
			}
			if full {
				return y*m[4] + m[5], math.Max(math.Abs(y*m[4]), math.Abs(m[5]))
			}
			return y * m[4], math.Abs(y * m[4])
		}
		switch verb {
		case 'H', 'h':
			out[0], mg[0] = px(v[0], abs)
		case 'V', 'v':
			out[0], mg[0] = py(v[0], abs)
		case 'A', 'a':
			out[0], mg[0] = px(v[0], false)
			out[1], mg[1] = py(v[1], false)
			out[2], mg[2] = v[2]/360, math.Abs(v[2]/360)
			out[3], out[4] = v[3], v[4]
			out[5], mg[5] = px(v[5], abs)
			out[6], mg[6] = py(v[6], abs)
		default:
			for i := 0; i+1 < len(v); i += 2 {
				out[i], mg[i] = px(v[i], abs)
				out[i+1], mg[i+1] = py(v[i+1], abs)
			}
		}
		return out, mg
	}
}

func c20ConvXform(ci int) c20Xform {
	c := c20Conv[ci]
	k := float64(c.outSize) / float64(c.size)
	half := float64(c.outSize) / 2
	return func(verb byte, abs bool, v []float64) ([]float64, []float64) {
		out := make([]float64, len(v))
		mg := make([]float64, len(v))
		for i := range v {
			out[i] = v[i] * k
			mg[i] = math.Abs(out[i])
			if !abs {
				continue
			}
			axis := i & 1
			if verb == 'V' {
				axis = 1
			}
			out[i] = out[i] - half - float64(c.off[axis])
			mg[i] = math.Max(mg[i], math.Max(half, math.Abs(float64(c.off[axis]))))
		}
		return out, mg
	}
}

func c20Compare(got, want []rec.Call, mags [][]float64, ulps float64) (int, string) {
	n := len(got)
	if len(want) < n {
		n = len(want)
	}
	for i := 0; i < n; i++ {
		g, x := &got[i], &want[i]
		if g.M != x.M {
			return i, fmt.Sprintf("operation %s, expected %s", g.M, x.M)
		}
		if g.Adj != x.Adj || g.LA != x.LA || g.SW != x.SW {
			return i, fmt.Sprintf("flags/ADJ differ: %s, expected %s", g, x)
		}
		for j := 0; j < rec.NArgs[g.M]; j++ {
			mag := math.Abs(float64(x.A[j]))
			if mags[i] != nil && j < len(mags[i]) && mags[i][j] > mag {
				mag = mags[i][j]
			}
			if !(math.Abs(float64(g.A[j])-float64(x.A[j])) <= ulps*ulp32(mag)+1e-30) {
				return i, fmt.Sprintf("operand %d of %s is %s, expected %s", j, g.M, rec.F(g.A[j]), rec.F(x.A[j]))
			}
		}
	}
	if len(got) != len(want) {
		return n, fmt.Sprintf("%d operations emitted, %d expected", len(got), len(want))
	}
	return -1, ""
}

// ---- enumeration -------------------------------------------------------------

func c20MkGroups(verb byte, ngroups int, ctr *int) [][]c20Num {
	ar := c20Arity(verb)
	var gs [][]c20Num
	for g := 0; g < ngroups; g++ {
		var grp []c20Num
		for i := 0; i < ar; i++ {
			*ctr++
			f := c20Forms[*ctr%len(c20Forms)]
			if (verb == 'A' || verb == 'a') && (i == 3 || i == 4) {
				f = c20Tok{strconv.Itoa((*ctr / 3) % 2), float64((*ctr / 3) % 2)}
			}
			if (verb == 'A' || verb == 'a') && i < 2 {
				f = c20Tok{strconv.Itoa(2 + *ctr%5), float64(2 + *ctr%5)}
				if i == 1 && g%2 == 1 {
					f = c20Tok{grp[0].S, grp[0].V} // every other arc is circular: equal radii, rotation as spelled
				}
			}
			sep := " "
			if i == 0 && g == 0 {
				sep = ""
			}
			grp = append(grp, c20Num{S: f.s, V: f.v, Sep: sep})
		}
		gs = append(gs, grp)
	}
	return gs
}

var c20GenVerbs = []byte("LlHhVvCcSsQqTtAa")
var c20ConvVerbs = []byte("LlHhVvCcSsQqTt")

// letters: (verb, groups) pairs plus sub-path joins
type c20Letter struct {
	verb   byte
	groups int
	join   byte // 'M' or 'm' after a z
}

func c20Letters(dialect string) []c20Letter {
	verbs := c20GenVerbs
	if dialect == "converter" {
		verbs = c20ConvVerbs
	}
	var ls []c20Letter
	for _, v := range verbs {
		ls = append(ls, c20Letter{verb: v, groups: 1}, c20Letter{verb: v, groups: 2})
	}
	ls = append(ls, c20Letter{join: 'M', groups: 1}, c20Letter{join: 'm', groups: 1})
	if dialect == "generator" {
		ls = append(ls, c20Letter{join: 'M', groups: 2}, c20Letter{join: 'm', groups: 2})
	}
	return ls
}

func c20Depth(tier string) int {
	if tier == "thorough" {
		return 4
	}
	return 3
}

func init() {
	ng, nc := len(c20Letters("generator")), len(c20Letters("converter"))
	mc.Register(&mc.Check{
		ID:    "C20",
		Level: "exploration",
		Rule: "engine B over the two dialect grammars of the statement. Structure: every command sequence M|m (1 or 2 operand groups) + <=3 (thorough <=4) further commands over the dialect's verbs with 1 or 2 operand groups (implicit repetition), sub-path joins zM/zm, terminator z (generator) / optional z (converter), x 6 transforms / 4 (size,offset,outSize) triples x ADJ {0,3}. " +
			"Lexis: for every verb, every number form {1,-2,+3,.5,-.25,10.5,0,007,+12.5,-0.75,+.5, three forms with 20 or more digits} in every operand position x every separator {space, comma, two spaces, comma with spaces around it, nothing where the next sign or dot delimits}. Long: every verb once with 300 operand groups. Concat/MulAff3: all ordered triples of 8 matrices against float64 composition. Converter level: SVG files with <=3 paths x opacity attributes {absent,1,.5,.25} in both attribute spellings x 0..2 circles x {viewBox 0 0 48 48 at size 48, viewBox 4 -2 24 24 at size 24} through ParseFile. " +
			"Expected calls are built from the structured description (not by parsing): first move => StartPath(adj), later moves => close-and-move, one ClosePathEndPath; absolute operands full transform, relative scale only, H/V matching axis, radii scale, flags unchanged, rotation/360; within 3 float32 ulp at the magnitude of the largest term (converter 4). " +
			"distinct = hash of the emitted call kinds; non-trivial = string with an implicit repetition, a sub-path join or a non-space separator",
		Assumptions: []string{"strings outside the two dialects (exponents, whitespace after a verb, commas in the converter, z not followed by a move or the end) are not generated"},
		Units:       func(tier string) int { return 2*ng + nc + 3 },
		Run: func(w *mc.W, u int) {
			switch {
			case u < 2*ng:
				c20Structure(w, "generator", u/ng == 1, u%ng)
			case u < 2*ng+nc:
				c20Structure(w, "converter", false, u-2*ng)
			case u == 2*ng+nc:
				c20Lexis(w)
				c20Long(w)
			case u == 2*ng+nc+1:
				c20Concat(w)
			default:
				c20Files(w)
			}
		},
		Replay: func(w *mc.W, data json.RawMessage) error {
			var cs c20Case
			if err := unmarshalCase(data, &cs); err != nil {
				return err
			}
			switch cs.Dialect {
			case "concat":
				c20ConcatOne(w, cs.Concat[0], cs.Concat[1], cs.Concat[2])
			case "file":
				c20FileOne(w, cs.File)
			default:
				c20Check(w, &cs)
			}
			return nil
		},
		Post: postDistinct(50),
	})
}

func c20Structure(w *mc.W, dialect string, lowerStart bool, first int) {
	ls := c20Letters(dialect)
	D := c20Depth(w.Tier)
	ntf := len(c20Transforms)
	if dialect == "converter" {
		ntf = len(c20Conv)
	}
	seq := []int{first}
	var rc func()
	rc = func() {
		if w.Expired() {
			return
		}
		for startGroups := 1; startGroups <= 2; startGroups++ {
			if dialect == "converter" && startGroups == 2 {
				continue // repeated groups only after non-move verbs
			}
			ctr := 0
			start := byte('M')
			if lowerStart {
				start = 'm'
			}
			cmds := []c20Cmd{{Verb: start, Groups: c20MkGroups(start, startGroups, &ctr)}}
			for _, li := range seq {
				l := ls[li]
				if l.join != 0 {
					cmds = append(cmds, c20Cmd{Verb: 'z'}, c20Cmd{Verb: l.join, Groups: c20MkGroups(l.join, l.groups, &ctr)})
				} else {
					cmds = append(cmds, c20Cmd{Verb: l.verb, Groups: c20MkGroups(l.verb, l.groups, &ctr)})
				}
			}
			for tf := 0; tf < ntf; tf++ {
				for _, adj := range []uint8{0, 3} {
					c20Check(w, &c20Case{Dialect: dialect, Cmds: cmds, TF: tf, Adj: adj, TrailZ: (tf+int(adj))%2 == 0})
				}
			}
		}
		if len(seq) == D {
			return
		}
		for l := range ls {
			seq = append(seq, l)
			rc()
			seq = seq[:len(seq)-1]
		}
	}
	rc()
}

func c20Lexis(w *mc.W) {
	seps := []string{" ", ",", "  ", "", ", ", " ,", " , "}
	for _, dialect := range []string{"generator", "converter"} {
		verbs := append([]byte("Mm"), c20GenVerbs...)
		if dialect == "converter" {
			verbs = c20ConvVerbs
		}
		for _, verb := range verbs {
			ar := c20Arity(verb)
			for pos := 0; pos < ar; pos++ {
				for _, f := range c20Forms {
					for _, sep := range seps {
						if dialect == "converter" && strings.Contains(sep, ",") {
							continue
						}
						ctr := 0
						cmds := []c20Cmd{{Verb: 'M', Groups: c20MkGroups('M', 1, &ctr)}}
						if verb == 'M' || verb == 'm' {
							cmds = append(cmds, c20Cmd{Verb: 'z'})
						}
						gs := c20MkGroups(verb, 2, &ctr)
						if dialect == "converter" && (verb == 'M' || verb == 'm') {
							gs = gs[:1]
						}
						for gi := range gs {
							g := gs[gi]
							if (verb == 'A' || verb == 'a') && (pos == 3 || pos == 4 || pos < 2) {
								continue
							}
							g[pos].S, g[pos].V = f.s, f.v
							for i := range g {
								if i == 0 && gi == 0 {
									continue
								}
								s := sep
								prev := ""
								if i > 0 {
									prev = g[i-1].S
								} else {
									prev = gs[gi-1][len(g)-1].S
								}
								if s == "" {
									c0 := g[i].S[0]
									ok := c0 == '+' || c0 == '-' || (c0 == '.' && strings.Contains(prev, "."))
									if !ok {
										s = " "
									}
								}
								g[i].Sep = s
							}
						}
						cmds = append(cmds, c20Cmd{Verb: verb, Groups: gs})
						for tf := 0; tf < 2; tf++ {
							c20Check(w, &c20Case{Dialect: dialect, Cmds: cmds, TF: tf * 2, Adj: 0, TrailZ: true})
						}
					}
				}
			}
		}
	}
}

// c20Long: one verb with 300 operand groups (implicit repetition well beyond any one-byte count)
func c20Long(w *mc.W) {
	for _, dialect := range []string{"generator", "converter"} {
		verbs := c20GenVerbs
		if dialect == "converter" {
			verbs = c20ConvVerbs
		}
		for _, verb := range verbs {
			ctr := 0
			cmds := []c20Cmd{{Verb: 'M', Groups: c20MkGroups('M', 1, &ctr)}, {Verb: verb, Groups: c20MkGroups(verb, 300, &ctr)}}
			for tf := 0; tf < 2; tf++ {
				c20Check(w, &c20Case{Dialect: dialect, Cmds: cmds, TF: tf * 3, Adj: 0, TrailZ: true})
			}
		}
	}
}

func c20Check(w *mc.W, cs *c20Case) {
	w.Eval()
	d := c20String(cs.Cmds, cs.Dialect, cs.TrailZ, cs.Adj == 3)
	var rd rec.Dest
	var want []rec.Call
	var mags [][]float64
	var err error
	ulps := 3.0
	tfName := ""
	pnc, stack := guard(func() {
		if cs.Dialect == "generator" {
			var g generate.Generator
			g.SetDestination(&rd)
			tf := c20Transforms[cs.TF]
			tfName = tf.name
			// every other case runs on a Generator with a history: it had another (two-factor)
			// transform before (with no transform in the case the identity is configured again
			// explicitly) and the judged path is the second one it emits. The others are pristine.
			used := (len(d)+cs.TF)%2 == 1
			if used {
				g.SetTransform(generate.Scale(3, 5), generate.Translate(1, 1))
				if tf.tf == nil {
					g.SetTransform()
				}
			}
			if tf.tf != nil {
				// the transform is configured from a slice the caller goes on to reuse: what counts is
				// its content at the time of the call
				mine := append([]generate.Aff3(nil), tf.tf...)
				g.SetTransform(mine...)
				for i := range mine {
					mine[i] = generate.Aff3{7, 0, 100, 0, -3, -100}
				}
			}
			// the judged path is the second one this Generator emits: nothing of the first (pen,
			// sub-path start, pending verb) carries over
			if used {
				if perr := g.SetPathData("M3 1.5l2 2q1 1 2 0zm1 1h2z", 1); perr != nil {
					err = perr
					return
				}
				rd.ResetLog()
			}
			err = g.SetPathData(d, cs.Adj)
			want, mags = c20Expect(cs.Cmds, cs.Adj, c20GenXform(tf.tf))
		} else {
			c := c20Conv[cs.TF]
			tfName = fmt.Sprintf("size %g offset %v outSize %g", c.size, c.off, c.outSize)
			if len(d)%2 == 1 {
				if perr := mdicons.ParsePathData(&rd, "M3 1.5l2 2q1 1 2 0zm1 1h2z", 1, c.size, c.off, c.outSize); perr != nil {
					err = perr
					return
				}
				rd.ClosePathEndPath()
				rd.ResetLog()
			}
			err = mdicons.ParsePathData(&rd, d, cs.Adj, c.size, c.off, c.outSize)
			want, mags = c20Expect(cs.Cmds, cs.Adj, c20ConvXform(cs.TF))
			want = want[:len(want)-1] // ParsePathData leaves ending the path to ParsePath
			ulps = 4
		}
	})
	fail := func(key, what string) {
		c := *cs
		c.Text = d
		w.Fail(cs.Dialect+":"+key, fmt.Sprintf("%s path %q, transform %s, ADJ %d: %s", cs.Dialect, d, tfName, cs.Adj, what), c)
	}
	if pnc != nil {
		fail("panic:"+panicKey(stack), fmt.Sprintf("panic: %v", pnc))
		return
	}
	if err != nil {
		fail("error", "well-formed path rejected: "+err.Error())
		return
	}
	if i, why := c20Compare(rd.Calls, want, mags, ulps); i >= 0 {
		verb := "end"
		if i < len(want) {
			verb = want[i].M.String()
		}
		fail("calls:"+verb, fmt.Sprintf("call %d: %s (emitted: %s)", i, why, rec.CallsString(rd.Calls)))
		return
	}
	h := mc.NewHasher()
	h.Str(cs.Dialect)
	rec.HashCalls(&h, rd.Calls, false)
	nt := false
	for _, c := range cs.Cmds {
		if c.Verb == 'z' || len(c.Groups) > 1 {
			nt = true
		}
		for _, g := range c.Groups {
			for _, n := range g {
				if n.Sep != " " && n.Sep != "" || (n.Sep == "" && &n != &g[0]) {
					nt = true
				}
			}
		}
	}
	w.Outcome(h.Sum(), nt)
	if nt && w.WantSample() && len(d) < 60 {
		w.Sample(map[string]any{"dialect": cs.Dialect, "path": d, "transform": tfName, "calls": rec.CallsString(rd.Calls)})
	}
}

// ---- Concat / MulAff3 ----------------------------------------------------------

var c20Mats = []generate.Aff3{
	generate.Scale(), generate.Scale(2), generate.Scale(1.5, -0.5), generate.Translate(-32, -32), generate.Translate(0.25, 7),
	{0.5, 0.25, 1, -0.75, 2, -3}, {0, 1, 0, -1, 0, 0}, {3, 0, 0.1, 0, 0.3, 100},
}

func c20Concat(w *mc.W) {
	n := len(c20Mats)
	for a := 0; a < n; a++ {
		for b := 0; b < n; b++ {
			for c := 0; c < n; c++ {
				c20ConcatOne(w, a, b, c)
			}
		}
	}
}

func c20ConcatOne(w *mc.W, a, b, c int) {
	w.Eval()
	ms := []generate.Aff3{c20Mats[a], c20Mats[b], c20Mats[c]}
	cat := generate.Concat(ms...)
	cat2 := generate.Concat(ms[:2]...)
	cs := c20Case{Dialect: "concat", Concat: [3]int{a, b, c}}
	for _, pt := range [][2]float32{{0, 0}, {1, 0}, {0, 1}, {-7.5, 13.25}} {
		// reference: apply the factors one after the other in float64
		x, y := float64(pt[0]), float64(pt[1])
		mag := 0.0
		var x2, y2 float64
		for i, m := range ms {
			nx := x*float64(m[0]) + y*float64(m[1]) + float64(m[2])
			ny := x*float64(m[3]) + y*float64(m[4]) + float64(m[5])
			for _, t := range []float64{x * float64(m[0]), y * float64(m[1]), float64(m[2]), x * float64(m[3]), y * float64(m[4]), float64(m[5])} {
				mag = math.Max(mag, math.Abs(t))
			}
			x, y = nx, ny
			if i == 1 {
				x2, y2 = x, y
			}
		}
		gx, gy := generate.MulAff3(pt[0], pt[1], cat)
		tol := 16 * ulp32(mag) * (1 + mag)
		if !(math.Abs(float64(gx)-x) <= tol && math.Abs(float64(gy)-y) <= tol) {
			w.Fail("concat:composition", fmt.Sprintf("Concat(%v,%v,%v) maps (%g,%g) to (%g,%g), applying the factors in order gives (%g,%g)", ms[0], ms[1], ms[2], pt[0], pt[1], gx, gy, x, y), cs)
			return
		}
		hx, hy := generate.MulAff3(pt[0], pt[1], cat2)
		if !(math.Abs(float64(hx)-x2) <= tol && math.Abs(float64(hy)-y2) <= tol) {
			w.Fail("concat:composition", fmt.Sprintf("Concat(%v,%v) maps (%g,%g) to (%g,%g), applying the factors in order gives (%g,%g)", ms[0], ms[1], pt[0], pt[1], hx, hy, x2, y2), cs)
			return
		}
	}
	if generate.Concat(ms[0]) != ms[0] || generate.Concat() != generate.Scale() {
		w.Fail("concat:trivial", "Concat of zero or one matrix is not the identity / the matrix", cs)
	}
	h := mc.NewHasher()
	h.Str("concat")
	h.Byte(byte(a*64 + b*8 + c))
	w.Outcome(h.Sum(), a != 0 && b != 0)
}

// ---- converter level: SVG files through ParseFile -------------------------------

type c20Path struct {
	D       string `json:"d"`
	Opacity string `json:"opacity"` // "", "o:.5" (opacity attr) or "f:.5" (fill-opacity attr)
}
type c20File struct {
	Paths   []c20Path    `json:"paths"`
	Circles [][3]float64 `json:"circles"`
	View    int          `json:"view,omitempty"`          // index into c20Views
	Skipped bool         `json:"skipped_first,omitempty"` // the file starts with a path the converter deliberately skips
}

// SVG viewBox attribute, size argument; outSize is 48 throughout (the converter's viewBox is fixed)
var c20Views = []struct {
	attr     string
	vbx, vby float64
	size     float64
}{{"0 0 48 48", 0, 0, 48}, {"4 -2 24 24", 4, -2, 24}}

var c20Ds = []string{"M4 4h10v10H4z", "M20 6l8 2-4 9z", "M16 34h22v4H16z"} // the third is skipped by the converter when (and only when) its fill is #fff
var c20Ops = []string{"", "o:1", "o:.5", "f:.5", "o:.25", "f:.25"}

func c20Files(w *mc.W) {
	circs := [][][3]float64{nil, {{24, 24, 6}}, {{12, 30, 4}, {36, 10, 2.5}}}
	var rc func(paths []c20Path)
	rc = func(paths []c20Path) {
		for _, cl := range circs {
			if len(paths) == 0 && len(cl) == 0 {
				continue
			}
			for v := range c20Views {
				c20FileOne(w, &c20File{Paths: append([]c20Path(nil), paths...), Circles: cl, View: v})
				if v == 0 && len(paths) > 0 {
					c20FileOne(w, &c20File{Paths: append([]c20Path(nil), paths...), Circles: cl, View: v, Skipped: true})
				}
			}
		}
		if len(paths) == 3 || w.Expired() {
			return
		}
		for _, op := range c20Ops {
			rc(append(paths, c20Path{D: c20Ds[len(paths)%2], Opacity: op}))
			if op == "" && len(paths) < 2 {
				rc(append(paths, c20Path{D: c20Ds[2], Opacity: op})) // without a fill attribute: an ordinary path
			}
		}
	}
	rc(nil)
}

func c20OpVal(s string) (float64, bool) {
	if s == "" {
		return 1, false
	}
	v, _ := strconv.ParseFloat(s[2:], 64)
	return v, true
}

func c20FileOne(w *mc.W, f *c20File) {
	w.Eval()
	cs := c20Case{Dialect: "file", File: f}
	var sb strings.Builder
	view := c20Views[f.View]
	fmt.Fprintf(&sb, `<svg xmlns="http://www.w3.org/2000/svg" width="%g" height="%g" viewBox="%s">`, view.size, view.size, view.attr)
	k := 48 / view.size // scale; absolute operands: x*k - outSize/2 - viewBox origin*k
	ax := func(x float64) float32 { return float32(x*k - 24 - view.vbx*k) }
	ay := func(y float64) float32 { return float32(y*k - 24 - view.vby*k) }
	rl := func(v float64) float32 { return float32(v * k) }
	if f.Skipped {
		// (one of the converter's hard-wired exceptions: a white rectangle painted over by what follows)
		sb.WriteString(`<path fill="#fff" d="M16 34h22v4H16z"/>`)
	}
	for _, p := range f.Paths {
		attr := ""
		if strings.HasPrefix(p.Opacity, "o:") {
			attr = fmt.Sprintf(` opacity="%s"`, p.Opacity[2:])
		} else if strings.HasPrefix(p.Opacity, "f:") {
			attr = fmt.Sprintf(` fill-opacity="%s"`, p.Opacity[2:])
		}
		fmt.Fprintf(&sb, `<path d="%s"%s/>`, p.D, attr)
	}
	for _, c := range f.Circles {
		fmt.Fprintf(&sb, `<circle cx="%g" cy="%g" r="%g"/>`, c[0], c[1], c[2])
	}
	sb.WriteString(`</svg>`)
	dir := os.Getenv("VERIF_SCRATCH_DIR")
	if dir == "" {
		dir = os.TempDir()
	}
	name := filepath.Join(dir, fmt.Sprintf("c20-%d.svg", os.Getpid()))
	if err := os.WriteFile(name, []byte(sb.String()), 0o644); err != nil {
		w.HarnessError("cannot write scratch svg: %v", err)
		return
	}
	defer os.Remove(name)
	fail := func(key, what string) {
		w.Fail("file:"+key, fmt.Sprintf("SVG %s: %s", sb.String(), what), cs)
	}
	var out bytes.Buffer
	var err error
	if pnc, stack := guard(func() { _, err = mdicons.ParseFile(name, "action", "test", float32(view.size), 48, &out) }); pnc != nil {
		fail("panic:"+panicKey(stack), fmt.Sprintf("panic: %v", pnc))
		return
	}
	if err != nil {
		fail("error", err.Error())
		return
	}
	// the generated Go source holds the bytes as 0x.. literals
	var data []byte
	src := out.String()
	if i := strings.Index(src, "{"); i >= 0 {
		for _, tok := range strings.FieldsFunc(src[i+1:], func(r rune) bool { return r == ',' || r == ' ' || r == '\n' || r == '}' }) {
			if v, err := strconv.ParseUint(tok, 0, 8); err == nil {
				data = append(data, byte(v))
			}
		}
	}
	var rd rec.Dest
	if derr := decode.Decode(&rd, data); derr != nil {
		fail("decode-error", fmt.Sprintf("converter output %x does not decode: %v", data, derr))
		return
	}
	// expectation
	var want []rec.Call
	want = append(want, rec.Call{M: rec.MReset})
	adjs := map[float64]uint8{}
	circlesLeft := f.Circles
	type wt struct {
		t float64
	}
	var weights []wt
	emitPath := func(d string, op string, circles [][3]float64) {
		o, has := c20OpVal(op)
		adj := uint8(0)
		if has && o != 1 {
			a, ok := adjs[o]
			if !ok {
				a = uint8(len(adjs) + 1)
				adjs[o] = a
				want = append(want, rec.Call{M: rec.MSetCReg, Adj: a, C: ivg.BlendColor(0, 0x7f, 0x80)})
				weights = append(weights, wt{255 * o})
			}
			adj = a
		}
		started := false
		if d != "" {
			// the two fixed path strings, by hand
			if d == c20Ds[2] {
				want = append(want, rec.Call{M: rec.MStartPath, Adj: adj, A: [6]float32{ax(16), ay(34)}}, rec.Call{M: rec.MRelH, A: [6]float32{rl(22)}}, rec.Call{M: rec.MRelV, A: [6]float32{rl(4)}}, rec.Call{M: rec.MAbsH, A: [6]float32{ax(16)}})
			} else if d == c20Ds[0] {
				want = append(want, rec.Call{M: rec.MStartPath, Adj: adj, A: [6]float32{ax(4), ay(4)}}, rec.Call{M: rec.MRelH, A: [6]float32{rl(10)}}, rec.Call{M: rec.MRelV, A: [6]float32{rl(10)}}, rec.Call{M: rec.MAbsH, A: [6]float32{ax(4)}})
			} else {
				want = append(want, rec.Call{M: rec.MStartPath, Adj: adj, A: [6]float32{ax(20), ay(6)}}, rec.Call{M: rec.MRelL, A: [6]float32{rl(8), rl(2)}}, rec.Call{M: rec.MRelL, A: [6]float32{rl(-4), rl(9)}})
			}
			started = true
		}
		for _, c := range circles {
			cx, cy, r := ax(c[0]), ay(c[1]), rl(c[2])
			if !started {
				want = append(want, rec.Call{M: rec.MStartPath, Adj: adj, A: [6]float32{cx - r, cy}})
				started = true
			} else {
				want = append(want, rec.Call{M: rec.MAbsMove, A: [6]float32{cx - r, cy}})
			}
			want = append(want, rec.Call{M: rec.MRelA, SW: true, A: [6]float32{r, r, 0, 2 * r, 0}}, rec.Call{M: rec.MRelA, SW: true, A: [6]float32{r, r, 0, -2 * r, 0}})
		}
		want = append(want, rec.Call{M: rec.MEndPath})
	}
	for _, p := range f.Paths {
		emitPath(p.D, p.Opacity, circlesLeft)
		circlesLeft = nil
	}
	if len(circlesLeft) > 0 {
		emitPath("", "", circlesLeft)
	}
	// compare
	if len(rd.Calls) != len(want) {
		fail("calls:count", fmt.Sprintf("%d operations, expected %d: %s", len(rd.Calls), len(want), rec.CallsString(rd.Calls)))
		return
	}
	wi := 0
	for i := 1; i < len(want); i++ {
		g, x := &rd.Calls[i], &want[i]
		if x.M == rec.MSetCReg {
			k, d := rec.ColorParts(g.C)
			if g.M != rec.MSetCReg || g.Adj != x.Adj || g.Incr || k != rec.KBlend || d.G != 0x7f || d.B != 0x80 || math.Abs(float64(d.R)-weights[wi].t) >= 1 {
				fail("opacity-register", fmt.Sprintf("call %d is %s, expected SetCReg(adj=%d, blend of 0x7f and 0x80 with weight ~%g)", i, g, x.Adj, weights[wi].t))
				return
			}
			wi++
			continue
		}
		if g.M != x.M || g.Adj != x.Adj || g.LA != x.LA || g.SW != x.SW {
			fail("calls:"+x.M.String(), fmt.Sprintf("call %d is %s, expected %s", i, g, x))
			return
		}
		for j := 0; j < rec.NArgs[g.M]; j++ {
			if !ref.Nearest64(x.A[j], g.A[j]) && !(math.Abs(float64(g.A[j]-x.A[j])) <= 1.0/64) {
				fail("calls:"+x.M.String(), fmt.Sprintf("call %d is %s, expected %s", i, g, x))
				return
			}
		}
	}
	h := mc.NewHasher()
	h.Str("file")
	rec.HashCalls(&h, rd.Calls, false)
	w.Outcome(h.Sum(), len(f.Circles) > 0 || len(adjs) > 0)
}
