package props

import (
	"bytes"
	"encoding/json"
	"fmt"
	"os"
	"os/exec"
	"path/filepath"
	"strings"

	"verif/bodies"
	"verif/mc"
)

// C18 — independent pipelines are safe to run concurrently. Engine T: the
// controlled scheduler over the instrumented build (c18_sched.go, build tag
// verifsched) plus an attached free-running -race pass of the same bodies.

type c18Scenario struct {
	Bodies   []int `json:"bodies"`
	Graphics []int `json:"graphics"`
	Bound    int   `json:"bound"`
	Occ      int   `json:"site_occurrence_bound"`
}

func (s c18Scenario) String() string {
	var n []string
	for i, b := range s.Bodies {
		n = append(n, fmt.Sprintf("%s(g%d)", bodies.Bodies[b].Name, s.Graphics[i]))
	}
	return strings.Join(n, " || ") + fmt.Sprintf(" <=%d preemptions, first %d occurrences per site", s.Bound, s.Occ)
}

const c18Stripes = 8

func c18Scenarios(tier string) []c18Scenario {
	var sc []c18Scenario
	nb := len(bodies.Bodies)
	for a := 0; a < nb; a++ {
		for b := a; b < nb; b++ {
			sc = append(sc, c18Scenario{[]int{a, b}, []int{2, 1}, 2, 1})
			if a == b {
				sc = append(sc, c18Scenario{[]int{a, b}, []int{2, 2}, 2, 1})
			}
		}
	}
	if tier == "thorough" {
		for a := 0; a < nb; a++ {
			for b := a; b < nb; b++ {
				sc = append(sc, c18Scenario{[]int{a, b}, []int{1, 2}, 2, 3})
			}
		}
		for a := 0; a < nb; a++ {
			sc = append(sc, c18Scenario{[]int{a, a}, []int{1, 1}, 3, 1}, c18Scenario{[]int{a, a}, []int{1, 1}, 2, 3})
		}
		for a := 0; a < nb; a++ {
			for b := a; b < nb; b++ {
				sc = append(sc, c18Scenario{[]int{a, b, (a + b + 1) % nb}, []int{1, 1, 2}, 1, 2})
			}
		}
		sc = append(sc, c18Scenario{[]int{0, 1, 3}, []int{2, 2, 2}, 2, 1}, c18Scenario{[]int{1, 1, 1}, []int{1, 1, 1}, 2, 1})
	}
	return sc
}

type c18Case struct {
	Kind     string      `json:"kind"` // schedule | race
	Scenario c18Scenario `json:"scenario"`
	Devs     []c18Dev    `json:"deviations,omitempty"`
	Report   string      `json:"report,omitempty"`
	Desc     string      `json:"desc,omitempty"`
}
type c18Dev struct {
	Point int `json:"point"`
	Alt   int `json:"alt"`
}

// set by c18_sched.go in the instrumented build
var c18RunScenario func(w *mc.W, sc c18Scenario, stripe int)
var c18ReplayScenario func(w *mc.W, cs *c18Case)

func init() {
	mc.Register(&mc.Check{
		ID:        "C18",
		Level:     "model_checking",
		WorkerBin: "ivgmc-inst",
		Rule: "engine T: the ivg packages are instrumented from the working tree (a scheduling point at every function entry, loop head, after every statement containing a call and around every statement mentioning a package-level variable); a cooperative scheduler runs one goroutine per body with exactly one runnable at a time and enumerates depth-first ALL schedules with <=2 preemptions for all 45 unordered pairs of 9 bodies (decode->render, transcode, generate->encode, disassemble, viewBox+colour helpers, generate->render->pixels, encode with a shared custom palette, mdicons->encode, a zero-value Encoder; self-pairs also on the same source slice) " +
			"(thorough: <=3 preemptions for self-pairs, 3-thread scenarios with <=1..2 preemptions). On every schedule: each body's result equals its solo result; the hash of the shared-state census (every package-level variable of every linked ivg package, deep through pointers/slices up to capacity/maps, plus the shared source slices, palette and option slice) equals its start value at every context switch and at the end; no panic. " +
			"Determinism: the deviation-free schedule is run twice per scenario and must give identical step traces. Attached detector: the same bodies, un-instrumented, free-running under -race (16 goroutines x GOMAXPROCS 16, 200 rounds, thorough 3000, each on a fresh instance of the shared data). " +
			"states = scheduling points reached, transitions = steps executed, evaluations = schedules; non-trivial = schedule in which both threads ran at least one step between two steps of the other",
		Assumptions: []string{"scheduling granularity: function entry / loop head / call return / statements mentioning package-level variables; finer-grained memory-model effects only through the attached -race pass", "more than 3 concurrent bodies are not explored"},
		Units:       func(tier string) int { return len(c18Scenarios(tier))*c18Stripes + 1 },
		Run: func(w *mc.W, u int) {
			sc := c18Scenarios(w.Tier)
			if u == len(sc)*c18Stripes {
				c18Race(w)
				return
			}
			if c18RunScenario == nil {
				w.HarnessError("this binary was built without the scheduling-point instrumentation")
				return
			}
			c18RunScenario(w, sc[u/c18Stripes], u%c18Stripes)
		},
		Replay: func(w *mc.W, data json.RawMessage) error {
			var cs c18Case
			if err := unmarshalCase(data, &cs); err != nil {
				return err
			}
			if cs.Kind == "race" {
				c18Race(w)
				return nil
			}
			if c18ReplayScenario == nil {
				// the replay sub-command runs in the plain binary: delegate to the instrumented one
				return c18DelegateReplay(w, data)
			}
			c18ReplayScenario(w, &cs)
			return nil
		},
		Post: func(tier string, m *mc.Result) string {
			if m.Counters["race_pass_iterations"] == 0 {
				return "the free-running -race pass did not run"
			}
			if m.Counters["interleaved_schedules"] == 0 {
				return "no schedule interleaved two threads"
			}
			if m.Counters["max_census_variables"] == 0 {
				return "empty shared-state census"
			}
			return ""
		},
	})
}

func c18BinDir() string {
	self, _ := os.Executable()
	return filepath.Dir(self)
}

func c18Suffix() string {
	self, _ := os.Executable()
	b := filepath.Base(self)
	if i := strings.Index(b, "-alt"); i >= 0 {
		return b[i:]
	}
	return ""
}

func c18DelegateReplay(w *mc.W, data json.RawMessage) error {
	bin := filepath.Join(c18BinDir(), "ivgmc-inst"+c18Suffix())
	tmp, err := os.CreateTemp(os.Getenv("VERIF_SCRATCH_DIR"), "c18-replay-*.json")
	if err != nil {
		return err
	}
	defer os.Remove(tmp.Name())
	v := mc.Violation{Property: "C18", Key: "replay", Case: data}
	b, _ := json.Marshal(v)
	tmp.Write(b)
	tmp.Close()
	out, _ := exec.Command(bin, "replay", tmp.Name()).CombinedOutput()
	if bytes.Contains(out, []byte("VIOLATION")) {
		w.Fail("replayed", string(out), nil)
	}
	return nil
}

// c18Race runs the pre-built -race binary of the same bodies, free-running.
func c18Race(w *mc.W) {
	bin := filepath.Join(c18BinDir(), "ivgmc-race"+c18Suffix())
	if _, err := os.Stat(bin); err != nil {
		w.HarnessError("race binary %s missing (see .bin/build-race.log)", bin)
		return
	}
	iters := "200"
	if w.Thorough {
		iters = "3000"
	}
	cmd := exec.Command(bin, iters)
	cmd.Env = append(os.Environ(), "GOMAXPROCS=16", "GORACE=halt_on_error=0 exitcode=66", "VERIF_REPO="+os.Getenv("VERIF_REPO"))
	out, err := cmd.CombinedOutput()
	s := string(out)
	w.Eval()
	if strings.Contains(s, "WARNING: DATA RACE") {
		rep := s
		if i := strings.Index(rep, "WARNING: DATA RACE"); i >= 0 {
			rep = rep[i:]
		}
		if len(rep) > 4000 {
			rep = rep[:4000]
		}
		site := "unknown"
		for _, l := range strings.Split(rep, "\n") {
			l = strings.TrimSpace(l)
			if strings.HasPrefix(l, "github.com/reactivego/ivg") {
				site = strings.SplitN(l, "(", 2)[0]
				break
			}
		}
		w.Fail("data-race:"+site, "the race detector reports a data race between independent pipelines:\n"+rep, c18Case{Kind: "race", Report: rep})
		return
	}
	if strings.Contains(s, "RESULT-MISMATCH") {
		w.Fail("race-pass:result-mismatch", "free-running bodies produced results different from their solo runs: "+s, c18Case{Kind: "race", Report: s})
		return
	}
	if err != nil {
		w.HarnessError("race binary failed: %v: %s", err, tailStr(s, 1500))
		return
	}
	var n int64
	fmt.Sscanf(lastLine(s), "race-pass ok iterations=%d", &n)
	w.Count("race_pass_iterations", n)
	w.Outcome(mc.HashString("race-pass-ok"), false)
}

func lastLine(s string) string {
	ls := strings.Split(strings.TrimSpace(s), "\n")
	return ls[len(ls)-1]
}

func tailStr(s string, n int) string {
	if len(s) > n {
		return s[len(s)-n:]
	}
	return s
}
