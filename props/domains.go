package props

import (
	"image/color"
	"math"

	"github.com/reactivego/ivg"
)

// domF: float32 boundary values — one on each side of every comparison in the
// number formats of the specification.
var domF = func() []float32 {
	bits := func(u uint32) float32 { return math.Float32frombits(u) }
	v := []float32{0, bits(0x80000000), 1, -1, 2, 63, 64, -64, -65, 127, 128, -128, 127.984375, -128.015625, 128.015625,
		127.9921875, 127.995, bits(0x42ffffff), -128.0078125, -127.995, 63.9921875, -64.0078125, // round across the edge of the 2-byte / 1-byte ranges at low resolution

		1.0 / 64, -1.0 / 64, 1.0 / 128, bits(0x3bffffff), bits(0x3c000001), 0.5, 0.25, 0.75, 7.5, -7.515625, 11.05, -8.95, 20.36,
		16383, 16384, 16385, 16383.5, 1 << 24, 1<<24 + 2, 1 << 31, 1 << 32, float32(math.Ldexp(1, 63)), float32(math.Ldexp(1, 64)), -float32(math.Ldexp(1, 31)),
		1e-40, bits(0x00000001), bits(0x00800000), math.MaxFloat32, -math.MaxFloat32, bits(0x7f7ffffc),
		float32(math.Inf(1)), float32(math.Inf(-1)), bits(0x7fc00000), bits(0x7f800001), bits(0xffc00003), bits(0x7fbfffff),
		bits(0x3f7ffffc), bits(0x3f7ffffd), bits(0x3f7ffffe), bits(0x3f7fffff), bits(0x3fffffff), bits(0x407fffff),
		1.0 / 120, 8.0 / 120, 30.0 / 120, 119.0 / 120, 1.0 / 15120, 5040.0 / 15120, 15119.0 / 15120, bits(0x3c088889), bits(0x3c088887),
		1.0 / 3, 0.1, 0.9, 0.3, 1.25, -0.1, 100.5, 1000, -1000.25, 33.333, 3.1415927, 1e10, -1e-10, 1e-3}
	return v
}()

// domFmod: moderate finite values (viewBoxes, geometry).
var domFmod = []float32{0, 1, -1, 0.5, 7.5, -7.515625, 11.05, -24, 24, 48, 63, 64, -64, -65, 127.984375, 128, -128, -128.015625, 100.5, 1000, -1000.25, 1.0 / 64, 16384, 1e-3, 33.333}

func rgba(r, g, b, a uint8) ivg.Color { return ivg.RGBAColor(color.RGBA{r, g, b, a}) }

// domCol: one colour per class (DESIGN 3, "Col").
var domCol = []ivg.Color{
	rgba(0x40, 0xff, 0xc0, 0xff),                                                 // 1-byte opaque
	rgba(0xc0, 0xc0, 0xc0, 0xc0), rgba(0x80, 0x80, 0x80, 0x80), rgba(0, 0, 0, 0), // 1-byte specials
	rgba(0x40, 0x40, 0x40, 0x40), rgba(0, 0, 0, 0x80), // Is1-shaped, not 1-byte encodable
	rgba(0x33, 0x88, 0x00, 0xff), rgba(0x11, 0x22, 0x33, 0x44), // 2-byte
	rgba(0x30, 0x66, 0x07, 0xff),                                                                                           // 3-byte
	rgba(0x30, 0x66, 0x07, 0x80),                                                                                           // 4-byte translucent premultiplied
	rgba(0x90, 0x66, 0x07, 0x80),                                                                                           // non-premultiplied non-gradient
	rgba(0x02, 0x4a, 0x8a, 0x00), rgba(0x05, 0xca, 0xca, 0x00), rgba(0x3f, 0x80, 0xff, 0x00), rgba(0xc2, 0x0a, 0x8a, 0x00), // gradients
	ivg.PaletteIndexColor(0), ivg.PaletteIndexColor(63), ivg.CRegColor(0), ivg.CRegColor(63),
	ivg.BlendColor(0, 0x7f, 0x80), ivg.BlendColor(1, 0xc1, 0x7c), ivg.BlendColor(128, 0x80, 0xff), ivg.BlendColor(254, 0x00, 0x7e), ivg.BlendColor(255, 0x30, 0x85),
}

var domVB = []ivg.ViewBox{
	ivg.DefaultViewBox,
	{MinX: 0, MinY: 0, MaxX: 48, MaxY: 48},
	{MinX: -10, MinY: 5, MaxX: 30, MaxY: 25},
	{MinX: 0.125, MinY: 0.125, MaxX: 0.7578125, MaxY: 1.25}, // MaxX = 97/128: off the 1/64 grid, exact in the 4-byte form
}
