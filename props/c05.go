package props

import (
	"encoding/json"
	"fmt"
	"image"
	"math"

	"github.com/reactivego/ivg"
	"github.com/reactivego/ivg/raster"
	"github.com/reactivego/ivg/render"
	"verif/mc"
	"verif/rec"
	"verif/ref"
)

// C05 — path geometry reaches the rasteriser correctly mapped. Engine S over
// the real Renderer with a recording rasteriser.

var c05Rects = []image.Rectangle{image.Rect(0, 0, 64, 64), image.Rect(0, 0, 40, 100), image.Rect(7, 13, 39, 61)}
var c05VBs = []ivg.ViewBox{ivg.DefaultViewBox, {MinX: 0, MinY: 0, MaxX: 48, MaxY: 48}, {MinX: -10, MinY: 5, MaxX: 30, MaxY: 25}, {MinX: 0.125, MinY: 0.125, MaxX: 0.75, MaxY: 1.25}}

var c05Tuples = [3][6]float32{{3, -5, 7.5, 2.25, -4, 6}, {-2.5, 4, 1, -6.5, 8, 0.5}, {1000.5, -0.001953125, -4096, 300, 0.015625, -77.25}}

// letters: the 18 non-arc verbs + Y + y, each with two argument tuples
var c05QuickLetters int

var c05Letters = func() []rec.Call {
	var ls []rec.Call
	for t := 0; t < 3; t++ { // the third tuple (large and tiny magnitudes) is used by the thorough tier only
		for m := rec.MAbsMove; m <= rec.MRelC; m++ {
			ls = append(ls, rec.Call{M: m, A: c05Tuples[t]})
		}
		if t == 1 {
			// zero-length relative lines: still one LineTo each, and a smooth operation after them
			// uses the pen
			negZero := float32(math.Copysign(0, -1))
			ls = append(ls, rec.Call{M: rec.MRelL}, rec.Call{M: rec.MRelH, A: [6]float32{negZero}}, rec.Call{M: rec.MRelV})
			// arcs, judged by C06; here: what follows an arc starts from the pen the arc left and
			// from no smooth state
			ls = append(ls, rec.Call{M: rec.MAbsA, LA: true, A: [6]float32{4, 6, 0.1, 7.5, 2.25}}, rec.Call{M: rec.MRelA, SW: true, A: [6]float32{3, 3, 0, -4, 6}})
			// cubics that happen to be straight: first control point on the pen, second on the end
			// point - still cubic segments
			ls = append(ls, rec.Call{M: rec.MRelC, A: [6]float32{0, 0, 4, 6, 4, 6}}, rec.Call{M: rec.MAbsS, A: [6]float32{7.5, 2.25, 7.5, 2.25}})
			c05QuickLetters = len(ls)
		}
	}
	return ls
}()

type c05Case struct {
	VB      int    `json:"viewbox"`
	Rect    int    `json:"rect"`
	Letters []int  `json:"letters"`
	Reps    int    `json:"reps,omitempty"`
	Desc    string `json:"desc,omitempty"`
}

func c05Depth(tier string) int {
	if tier == "thorough" {
		return 5
	}
	return 4
}

func init() {
	nlAll := len(c05Letters)
	nlQuick := c05QuickLetters
	nlOf := func(tier string) int {
		if tier == "thorough" {
			return nlAll
		}
		return nlQuick
	}
	nl := nlQuick
	mc.Register(&mc.Check{
		ID:    "C05",
		Level: "model_checking",
		Rule: fmt.Sprintf("engine S: every sequence of <=4 (thorough <=5) drawing operations over a %d-letter alphabet (the 18 non-arc verbs and the two close-and-move operations, each with two argument tuples) after StartPath, closed by ClosePathEndPath, x 4 viewBoxes x 3 target rectangles (non-square, non-zero origin), plus single-verb runs of 33 repetitions, driven into a real Renderer over a recording rasteriser. ", nl) +
			"Per step: one rasteriser call of the right kind per operation (ClosePath before the MoveTo of a close-and-move; ClosePath + Draw(rect, paint, (0,0)) exactly once at the end); every coordinate equals the float64 reference computed from the pen / sub-path start / previous control point the recording rasteriser holds (|delta| <= 8 ulp at the magnitude of the terms). " +
			"states = sequences executed, transitions = drawing calls; non-trivial = sequence containing a smooth or relative operation",
		Assumptions: []string{"recording rasteriser has the pen semantics of golang.org/x/image/vector", "tolerance 8 float32 ulp at the magnitude of the largest term"},
		Units:       func(tier string) int { return nlOf(tier)*len(c05VBs) + 1 },
		Run: func(w *mc.W, u int) {
			nl := nlOf(w.Tier)
			st := &c05State{w: w}
			if u == nl*len(c05VBs) {
				st.runs()
				return
			}
			vb, l0 := u/nl, u%nl
			D := c05Depth(w.Tier)
			seq := make([]int, 0, D)
			var rc func()
			rc = func() {
				if w.Expired() {
					return
				}
				for r := range c05Rects {
					st.check(&c05Case{VB: vb, Rect: r, Letters: seq})
				}
				if len(seq) == D {
					return
				}
				for l := 0; l < nl; l++ {
					seq = append(seq, l)
					rc()
					seq = seq[:len(seq)-1]
				}
			}
			seq = append(seq, l0)
			rc()
			w.Depth(D)
		},
		Replay: func(w *mc.W, data json.RawMessage) error {
			var cs c05Case
			if err := unmarshalCase(data, &cs); err != nil {
				return err
			}
			(&c05State{w: w}).check(&cs)
			return nil
		},
		Post: postDistinct(50),
	})
}

type c05State struct {
	w   *mc.W
	ras rec.Raster
}

func (st *c05State) runs() {
	for vb := range c05VBs {
		for r := range c05Rects {
			for l := range c05Letters {
				if !st.w.Thorough && l >= c05QuickLetters {
					break
				}
				st.check(&c05Case{VB: vb, Rect: r, Letters: []int{l}, Reps: 33})
				st.check(&c05Case{VB: vb, Rect: r, Letters: []int{l, (l + 7) % c05QuickLetters}, Reps: 17})
			}
		}
	}
}

const (
	smNone = iota
	smQuad
	smCube
)

func (st *c05State) check(cs *c05Case) {
	w := st.w
	w.Eval()
	w.State(1)
	vb, rect := c05VBs[cs.VB], c05Rects[cs.Rect]
	m := ref.NewMap(vb, rect)
	var z render.Renderer
	st.ras.Fresh()
	// Two ways to get there, alternating from case to case (a prelude can mask a defect that
	// needs its absence, and the other way round):
	variant := (cs.VB + cs.Rect + len(cs.Letters) + cs.Reps) % 2
	if variant == 0 {
		// the plain order; the Renderer was used before for a graphic whose viewBox has the
		// same extent but another origin
		if len(cs.Letters) <= 2 && cs.Reps <= 1 {
			// short paths also through the pass-through raster.RasterizerLogger (it prints every call and
			// must hand each one on unchanged)
			z.SetRasterizer(&raster.RasterizerLogger{Rasterizer: &st.ras}, rect)
		} else {
			z.SetRasterizer(&st.ras, rect)
		}
		z.Reset(ivg.ViewBox{MinX: vb.MinX + 5, MinY: vb.MinY - 3, MaxX: vb.MaxX + 5, MaxY: vb.MaxY - 3}, ivg.DefaultPalette)
		z.Reset(vb, ivg.DefaultPalette)
	} else {
		// the target is configured twice (another rectangle first, the final one only after Reset
		// and after a first path that ends on curves): the judged path is the second path of its
		// graphic, and nothing of the first - pen, control points, sub-path start, scale - carries over
		first := image.Rect(2, 1, 2+rect.Dy()+3, 1+rect.Dx()+9)
		if (cs.VB+len(cs.Letters))%2 == 0 {
			first = rect.Add(image.Pt(21, 13)) // the same size at another place: only the position changes later
		}
		z.SetRasterizer(&st.ras, first)
		z.Reset(vb, ivg.DefaultPalette)
		z.StartPath(0, vb.MinX+1, vb.MinY+1)
		z.AbsQuadTo(2, 3, 4, 5)
		z.RelCubeTo(1, 2, 3, 4, 5, 6)
		z.ClosePathEndPath()
		// ... and an undrawn one (outside its level-of-detail range) made of relative curves
		z.SetLOD(50000, 60000)
		z.StartPath(0, 1, 1)
		z.RelQuadTo(1, 2, 3, 4)
		z.RelSmoothCubeTo(1, 1, 2, 2)
		z.RelLineTo(1, 0)
		z.ClosePathEndPath()
		z.SetLOD(0, float32(math.Inf(1)))
		z.SetRasterizer(&st.ras, rect)
	}
	st.ras.ResetLog()
	reps := cs.Reps
	if reps == 0 {
		reps = 1
	}
	var ops []rec.Call
	ops = append(ops, rec.Call{M: rec.MStartPath, A: [6]float32{1.5, -2.25}})
	for _, l := range cs.Letters {
		for i := 0; i < reps; i++ {
			ops = append(ops, c05Letters[l])
		}
	}
	ops = append(ops, rec.Call{M: rec.MEndPath})
	marks := make([]int, len(ops)) // rasteriser calls logged after each operation
	for i := range ops {
		ops[i].Apply(&z)
		marks[i] = len(st.ras.Calls)
	}
	w.Transition(int64(len(ops)))
	desc := func() string {
		return fmt.Sprintf("viewBox %v rect %v ops [%s]", vb, rect, rec.CallsString(ops))
	}
	fail := func(key, what string) {
		c := *cs
		c.Letters = append([]int(nil), cs.Letters...)
		c.Desc = desc()
		w.Fail(key, c.Desc+": "+what, c)
	}
	calls := st.ras.Calls
	ci := 0
	next := func(k rec.RKind) *rec.RCall {
		if ci < len(calls) && calls[ci].K == k {
			ci++
			return &calls[ci-1]
		}
		return nil
	}
	// tolerance helper
	near := func(got float32, want float64, mags ...float64) bool {
		mag := math.Abs(want)
		for _, x := range mags {
			if a := math.Abs(x); a > mag {
				mag = a
			}
		}
		return math.Abs(float64(got)-want) <= 8*ulp32(mag)+1e-30
	}
	absX := func(x float32) (float64, float64) {
		return m.AbsX(float64(x)), math.Max(math.Abs(float64(x)), math.Abs(m.OX)) * m.SX
	}
	absY := func(y float32) (float64, float64) {
		return m.AbsY(float64(y)), math.Max(math.Abs(float64(y)), math.Abs(m.OY)) * m.SY
	}
	smooth := smNone
	var ctlX, ctlY float64
	nontrivial := false
	for oi := range ops {
		op := &ops[oi]
		a := op.A
		key := op.M.String()
		switch op.M {
		case rec.MStartPath:
			r := next(rec.RReset)
			if r == nil || r.W != rect.Dx() || r.H != rect.Dy() {
				fail(key+":reset", fmt.Sprintf("expected Reset(%d,%d) at path start, rasteriser log: %s", rect.Dx(), rect.Dy(), rec.RCallsString(calls)))
				return
			}
			mv := next(rec.RMoveTo)
			wx, mx := absX(a[0])
			wy, my := absY(a[1])
			if mv == nil || !near(mv.A[0], wx, mx) || !near(mv.A[1], wy, my) {
				fail(key+":moveto", fmt.Sprintf("start point should map to (%g,%g); rasteriser log: %s", wx, wy, rec.RCallsString(calls)))
				return
			}
			smooth = smNone
		case rec.MEndPath:
			cp := next(rec.RClosePath)
			dr := next(rec.RDraw)
			if cp == nil || dr == nil {
				fail(key+":close-draw", "expected ClosePath then Draw at the end of the path; rasteriser log: "+rec.RCallsString(calls))
				return
			}
			// (the source point is immaterial for a flat paint; C15/C16 judge it for gradients)
			if dr.R != rect || dr.Paint.Kind != 1 {
				fail(key+":draw-args", fmt.Sprintf("Draw(%v, %s, %v), expected Draw(%v, flat paint, ...)", dr.R, dr.Paint, dr.SP, rect))
				return
			}
		case rec.MAbsA, rec.MRelA:
			// not judged here (C06): at most four segments (none when the pen already is at the end
			// point), then the state is that of a fresh pen
			if marks[oi] < ci || marks[oi]-ci > 4 {
				fail(key+":segments", fmt.Sprintf("op %d: an arc is at most four segments, the rasteriser saw %d; log: %s", oi, marks[oi]-ci, rec.RCallsString(calls)))
				return
			}
			for ; ci < marks[oi]; ci++ {
				if calls[ci].K != rec.RCubeTo && calls[ci].K != rec.RLineTo {
					fail(key+":segments", "an arc produced something else than curve segments; log: "+rec.RCallsString(calls))
					return
				}
			}
			smooth = smNone
		case rec.MAbsMove, rec.MRelMove:
			cp := next(rec.RClosePath)
			if cp == nil {
				fail(key+":close-before-move", "expected ClosePath before the MoveTo; rasteriser log: "+rec.RCallsString(calls))
				return
			}
			mv := next(rec.RMoveTo)
			var wx, wy, mx, my float64
			if op.M == rec.MAbsMove {
				wx, mx = absX(a[0])
				wy, my = absY(a[1])
			} else {
				// relative to the sub-path start (the pen after closing)
				nontrivial = true
				wx, wy = float64(cp.FirstX)+m.RelX(float64(a[0])), float64(cp.FirstY)+m.RelY(float64(a[1]))
				mx, my = math.Abs(float64(cp.FirstX)), math.Abs(float64(cp.FirstY))
			}
			if mv == nil || !near(mv.A[0], wx, mx) || !near(mv.A[1], wy, my) {
				fail(key+":moveto", fmt.Sprintf("op %d: move should reach (%g,%g); rasteriser log: %s", oi, wx, wy, rec.RCallsString(calls)))
				return
			}
			smooth = smNone
		default:
			if ci >= len(calls) {
				fail(key+":missing", fmt.Sprintf("op %d produced no rasteriser call; log: %s", oi, rec.RCallsString(calls)))
				return
			}
			c := &calls[ci]
			ci++
			px, py := float64(c.PenX), float64(c.PenY)
			rel := (op.M-rec.MAbsH)%2 == 1
			if rel {
				nontrivial = true
			}
			pt := func(x, y float32) (float64, float64, float64, float64) {
				if rel {
					return px + m.RelX(float64(x)), py + m.RelY(float64(y)), math.Abs(px), math.Abs(py)
				}
				wx, mx := absX(x)
				wy, my := absY(y)
				return wx, wy, mx, my
			}
			var want [6]float64
			var mags [6]float64
			wantKind := rec.RLineTo
			n := 2
			switch op.M {
			case rec.MAbsH, rec.MRelH:
				want[0], _, mags[0], _ = pt(a[0], 0)
				want[1], mags[1] = py, 0
			case rec.MAbsV, rec.MRelV:
				_, want[1], _, mags[1] = pt(0, a[0])
				want[0], mags[0] = px, 0
			case rec.MAbsL, rec.MRelL:
				want[0], want[1], mags[0], mags[1] = pt(a[0], a[1])
			case rec.MAbsT, rec.MRelT:
				nontrivial = true
				wantKind, n = rec.RQuadTo, 4
				if smooth == smQuad {
					want[0], want[1], mags[0], mags[1] = 2*px-ctlX, 2*py-ctlY, 2*math.Abs(px), 2*math.Abs(py)
				} else {
					want[0], want[1] = px, py
				}
				want[2], want[3], mags[2], mags[3] = pt(a[0], a[1])
			case rec.MAbsQ, rec.MRelQ:
				wantKind, n = rec.RQuadTo, 4
				want[0], want[1], mags[0], mags[1] = pt(a[0], a[1])
				want[2], want[3], mags[2], mags[3] = pt(a[2], a[3])
			case rec.MAbsS, rec.MRelS:
				nontrivial = true
				wantKind, n = rec.RCubeTo, 6
				if smooth == smCube {
					want[0], want[1], mags[0], mags[1] = 2*px-ctlX, 2*py-ctlY, 2*math.Abs(px), 2*math.Abs(py)
				} else {
					want[0], want[1] = px, py
				}
				want[2], want[3], mags[2], mags[3] = pt(a[0], a[1])
				want[4], want[5], mags[4], mags[5] = pt(a[2], a[3])
			case rec.MAbsC, rec.MRelC:
				wantKind, n = rec.RCubeTo, 6
				want[0], want[1], mags[0], mags[1] = pt(a[0], a[1])
				want[2], want[3], mags[2], mags[3] = pt(a[2], a[3])
				want[4], want[5], mags[4], mags[5] = pt(a[4], a[5])
			}
			if c.K != wantKind {
				fail(key+":kind", fmt.Sprintf("op %d became %s, expected %s", oi, c, wantKind))
				return
			}
			for i := 0; i < n; i++ {
				if !near(c.A[i], want[i], mags[i]) {
					sub := "coordinate"
					if (wantKind == rec.RQuadTo || wantKind == rec.RCubeTo) && i < 2 && (op.M == rec.MAbsT || op.M == rec.MRelT || op.M == rec.MAbsS || op.M == rec.MRelS) {
						sub = "smooth-control"
					}
					fail(key+":"+sub, fmt.Sprintf("op %d (pen %g,%g, previous control %g,%g kind %d) became %s; argument %d should be %g", oi, px, py, ctlX, ctlY, smooth, c, i, want[i]))
					return
				}
			}
			switch wantKind {
			case rec.RLineTo:
				smooth = smNone
			case rec.RQuadTo:
				smooth, ctlX, ctlY = smQuad, float64(c.A[0]), float64(c.A[1])
			case rec.RCubeTo:
				smooth, ctlX, ctlY = smCube, float64(c.A[2]), float64(c.A[3])
			}
		}
	}
	if ci != len(calls) {
		fail("extra-raster-calls", fmt.Sprintf("%d unexpected trailing rasteriser calls: %s", len(calls)-ci, rec.RCallsString(calls[ci:])))
		return
	}
	h := mc.NewHasher()
	for _, l := range cs.Letters {
		h.Byte(byte(l))
	}
	h.Byte(byte(cs.VB))
	h.Byte(byte(cs.Rect))
	w.Outcome(h.Sum(), nontrivial)
	if nontrivial && w.WantSample() && len(cs.Letters) == 3 {
		w.Sample(map[string]any{"case": desc(), "rasteriser": rec.RCallsString(calls)})
	}
}
