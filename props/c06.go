package props

import (
	"encoding/json"
	"fmt"
	"image"
	"math"

	"github.com/reactivego/ivg"
	"github.com/reactivego/ivg/decode"
	"github.com/reactivego/ivg/encode"
	"github.com/reactivego/ivg/render"
	"verif/gen"
	"verif/mc"
	"verif/rec"
	"verif/ref"
)

// C06 — elliptical arcs. Engine P over (radii, rotation, flags, start, end,
// abs/rel, viewBox, rectangle).

var c06Radii = []float32{0, 0.5, 1, 3, 20, -3, 1.0 / 1024} // the last: far below a pixel, scaled up like any radius that is too small
var c06Rot = []float32{0, 1.0 / 24, 0.125, 0.25, 0.3, 0.5, 0.9, -0.1, 1.25}

func c06Lattice(thorough bool) [][2]float32 {
	xs := []float32{-7, -2.5, 0, 1, 3.25, 6, 11}
	if thorough {
		xs = []float32{-7, -5.5, -4, -2.5, -1, 0, 1, 2, 3.25, 4.5, 6, 11}
	}
	var pts [][2]float32
	for _, x := range xs {
		for _, y := range xs {
			pts = append(pts, [2]float32{x, y*0.75 + 0.5})
		}
	}
	return pts
}

type c06Case struct {
	RX, RY, Rot  uint32
	LA, SW, Rel  bool
	X1, Y1, X, Y uint32
	VB, Rect     int
	// Prefix: operations between StartPath and the judged arc. 0 none; 1 a proper arc; 2 a proper
	// arc then a zero-radius arc; 3 a cubic then a zero-radius arc; 4 a previous graphic whose last
	// arc ended on the same pixel; 5 an undrawn path with a relative arc. They end at (X1,Y1).
	Prefix int    `json:"prefix,omitempty"`
	Flags  []int  `json:"decoded_flags,omitempty"`
	Run    []int  `json:"encoded_run,omitempty"` // [value, width, relative]: the decoded-flags route
	Desc   string `json:"desc,omitempty"`
}

func init() {
	mc.Register(&mc.Check{
		ID:    "C06",
		Level: "exploration",
		Rule: "engine P: radii {0,0.5,1,3,20,-3,2^-10}^2 x rotation {0,1/24,1/8,1/4,0.3,0.5,0.9,-0.1,1.25} x 4 flag combinations x start and end points from a 7x7 (thorough 12x12) lattice plus three end points 1/64 away from the start and six end points a diameter away along the rotated axes (+- one float32 step; start != end) x {absolute, relative} x 4 viewBoxes x 3 rectangles (non-uniform scale, off-origin), each driven into a real Renderer over a recording rasteriser; plus 21 flags naturals (reserved bits set) x every width x {absolute, relative} through the decoder against the direct call; for two lattice columns of end points the arc is also judged as a later operation of its path (after a proper arc; after a proper arc and a zero-radius arc; after a cubic and a zero-radius arc; after a previous graphic whose last arc ended on the same pixel; after an undrawn path containing a relative arc). " +
			"Oracle: zero radius => one LineTo to the mapped end point; else 1..4 CubeTo ending at the mapped end point; every cubic's end point and its points at t=1/4,1/2,3/4, un-mapped to viewBox space, lie on the ellipse given by an independent SVG F.6.5 centre computation (radii scaled up when too small); the accumulated sweep has the sign of the sweep flag and exceeds a half turn iff large-arc. " +
			"distinct = (number of cubics, scaled-up, flags, zero radius); non-trivial = arc emitted as cubics",
		Assumptions: []string{"configurations within 1e-6 of a half turn are skipped and counted (flags do not determine the arc there)", "tolerances: 1e-4 R for end points, 5e-4 R for interior points (standard 4/3 tan(theta/4) construction, <= 90 degree pieces)"},
		Units:       func(tier string) int { return len(c06Radii)*len(c06Radii)*len(c06Rot) + 1 },
		Run: func(w *mc.W, u int) {
			nr := len(c06Radii)
			if u == nr*nr*len(c06Rot) {
				(&c06State{w: w}).decodedFlags(nil)
				(&c06State{w: w}).encodedRuns(nil)
				return
			}
			rx, ry, rot := c06Radii[u/(nr*len(c06Rot))], c06Radii[u/len(c06Rot)%nr], c06Rot[u%len(c06Rot)]
			if (rx == 1.0/1024) != (ry == 1.0/1024) {
				// the sub-pixel radius is paired with itself only: scaled up beside an ordinary radius it
				// gives an ellipse thousands of times longer than wide, beyond float32 pixel precision
				return
			}
			pts := c06Lattice(w.Thorough)
			st := &c06State{w: w}
			for fl := 0; fl < 4; fl++ {
				for _, p1 := range pts {
					// end points: the lattice, plus three points 1/64 away from the start (near-complete
					// ellipses with the large-arc flag, slivers without; sub-pixel chords at small scales)
					ends := append(append(st.ends[:0], pts...), [2]float32{p1[0] + 1.0/64, p1[1]}, [2]float32{p1[0], p1[1] - 1.0/64}, [2]float32{p1[0] - 1.0/64, p1[1] + 1.0/64})
					// chords that are exactly a diameter along a (rotated) axis, give or take one float32
					// step: the radii check lands on 1 or an ulp beside it. The centre is ill-conditioned
					// there (not judged), but the arc must still be emitted, finite, and end at its end point
					if rx != 0 && ry != 0 && rx != 1.0/1024 { // (a diameter of 2^-9 units is at the resolution of float32 pixel coordinates)
						co, si := math.Cos(2*math.Pi*float64(rot)), math.Sin(2*math.Pi*float64(rot))
						for _, d := range [][2]float64{{2 * math.Abs(float64(rx)) * co, 2 * math.Abs(float64(rx)) * si}, {-2 * math.Abs(float64(ry)) * si, 2 * math.Abs(float64(ry)) * co}} {
							ex, ey := p1[0]+float32(d[0]), p1[1]+float32(d[1])
							ends = append(ends, [2]float32{ex, ey}, [2]float32{math.Nextafter32(ex, 1e9), ey}, [2]float32{ex, math.Nextafter32(ey, -1e9)})
						}
					}
					st.ends = ends
					for _, p2 := range ends {
						if p1 == p2 {
							continue
						}
						if w.Expired() {
							return
						}
						for _, rel := range []bool{false, true} {
							for vb := range c05VBs {
								for r := range c05Rects {
									if !w.Thorough && (vb+r)%2 == 1 && rel {
										continue
									}
									cs := c06Case{RX: f32b(rx), RY: f32b(ry), Rot: f32b(rot), LA: fl&1 != 0, SW: fl&2 != 0, Rel: rel,
										X1: f32b(p1[0]), Y1: f32b(p1[1]), X: f32b(p2[0]), Y: f32b(p2[1]), VB: vb, Rect: r}
									st.check(&cs)
									// the same arc as the second, third ... operation of its path (lattice end points only)
									if vb == 0 && (p2[0] == -7 || p2[0] == 3.25) {
										for pf := 1; pf <= 5; pf++ {
											c := cs
											c.Prefix = pf
											st.check(&c)
										}
									}
								}
							}
						}
					}
				}
			}
		},
		Replay: func(w *mc.W, data json.RawMessage) error {
			var cs c06Case
			if err := unmarshalCase(data, &cs); err != nil {
				return err
			}
			if cs.Run != nil {
				(&c06State{w: w}).encodedRuns(cs.Run)
				return nil
			}
			if cs.Flags != nil {
				(&c06State{w: w}).decodedFlags(cs.Flags)
				return nil
			}
			(&c06State{w: w}).check(&cs)
			return nil
		},
		Post: postDistinct(10),
	})
}

type c06State struct {
	w    *mc.W
	ends [][2]float32
	ras  rec.Raster
}

// decodedFlags: the flags reach the Renderer through the decoder as a natural number of which
// bit 0 is large-arc and bit 1 is sweep; any other bit is reserved and selects nothing. Every
// flags value of a boundary set in every natural width, absolute and relative: the decoded
// stream must drive the rasteriser exactly as the direct call with (bit 0, bit 1) does.
func (st *c06State) decodedFlags(only []int) {
	w := st.w
	vals := []uint32{0, 1, 2, 3, 4, 5, 6, 7, 8, 0x41, 0x42, 0x7c, 0x7d, 0x2001, 0x2002, 0x3ffc, 0x3ffd, 1<<20 | 1, 1<<29 | 2, 1<<30 - 4, 1<<30 - 3}
	rect := c05Rects[1]
	for _, v := range vals {
		for _, wd := range []int{1, 2, 4} {
			if wd == 1 && v >= 1<<7 || wd == 2 && v >= 1<<14 {
				continue
			}
			for rel := 0; rel < 2; rel++ {
				if only != nil && (int(v) != only[0] || wd != only[1] || rel != only[2]) {
					continue
				}
				w.Eval()
				b := append([]byte{}, gen.Magic...)
				b = append(b, 0x00, 0xc0)
				b = gen.AppendNum(b, 1, 64-9) // StartPath(-9, 3)
				b = gen.AppendNum(b, 1, 64+3)
				b = append(b, byte(0xc0+0x10*rel))
				b = gen.AppendNum(b, 1, 64+7) // rx 7, ry 4, rotation 15/120
				b = gen.AppendNum(b, 1, 64+4)
				b = gen.AppendNum(b, 1, 15)
				b = gen.AppendNum(b, wd, v)
				b = gen.AppendNum(b, 1, 64+5) // to (5, -2) resp. by (5, -2)
				b = gen.AppendNum(b, 1, 64-2)
				b = append(b, 0xe1)
				var z1, z2 render.Renderer
				var r1, r2 rec.Raster
				z1.SetRasterizer(&r1, rect)
				z2.SetRasterizer(&r2, rect)
				cs := c06Case{Flags: []int{int(v), wd, rel}}
				if err := decode.Decode(&z1, b); err != nil {
					w.Fail("decoded-flags:rejected", fmt.Sprintf("stream %x (arc flags %#x in %d bytes) rejected: %v", b, v, wd, err), cs)
					continue
				}
				z2.Reset(ivg.DefaultViewBox, ivg.DefaultPalette)
				z2.StartPath(0, -9, 3)
				if rel == 1 {
					z2.RelArcTo(7, 4, 0.125, v&1 != 0, v&2 != 0, 5, -2)
				} else {
					z2.AbsArcTo(7, 4, 0.125, v&1 != 0, v&2 != 0, 5, -2)
				}
				z2.ClosePathEndPath()
				same := len(r1.Calls) == len(r2.Calls)
				for i := 0; same && i < len(r1.Calls); i++ {
					same = r1.Calls[i].EqualGeom(&r2.Calls[i])
				}
				if !same {
					w.Fail("decoded-flags:differs", fmt.Sprintf("arc flags %#x in %d bytes (large-arc %v, sweep %v): decoded stream %x drives the rasteriser with %s, the direct call with %s", v, wd, v&1 != 0, v&2 != 0, b, rec.RCallsString(r1.Calls), rec.RCallsString(r2.Calls)), cs)
				}
				h := mc.NewHasher()
				h.Str("decoded-flags")
				h.Byte(byte(v & 3))
				w.Outcome(h.Sum(), true)
			}
		}
	}
}

// encodedRuns: a run of n arcs with pairwise different operands (longer than one opcode can count, too)
// written by an Encoder and decoded into a Renderer drives the rasteriser exactly as the direct calls do
// (every operand is a multiple of 1/64 and every rotation a multiple of 1/8: nothing is quantised).
func (st *c06State) encodedRuns(only []int) {
	w := st.w
	rect := c05Rects[1]
	for _, n := range []int{1, 3, 15, 16, 17, 18, 20, 32, 33, 35, 49} {
		for rel := 0; rel < 2; rel++ {
			for hi := 0; hi < 2; hi++ {
				if only != nil && (n != only[0] || rel != only[1] || hi != only[2]) {
					continue
				}
				w.Eval()
				run := func(d ivg.Destination) {
					d.StartPath(0, -20, 3)
					for i := 0; i < n; i++ {
						rx, ry := float32(2+i%5), float32(1.5+float32(i%7)/4)
						rot := float32(i%8) / 8 // dyadic: exact in the one-byte form
						x, y := float32(-20+i)+0.5, float32(3+(i%3)*2)
						if rel == 1 {
							x, y = 1.25+float32(i%4)/8, float32(i%3-1)
							d.RelArcTo(rx, ry, rot, i%2 == 0, i%3 == 0, x, y)
						} else {
							d.AbsArcTo(rx, ry, rot, i%2 == 0, i%3 == 0, x, y)
						}
					}
					d.ClosePathEndPath()
				}
				var e encode.Encoder
				e.HighResolutionCoordinates = hi == 1
				run(&e)
				cs := c06Case{Run: []int{n, rel, hi}}
				b, err := e.Bytes()
				if err != nil {
					w.Fail("encoded-run:encode-error", fmt.Sprintf("run of %d arcs: %v", n, err), cs)
					continue
				}
				var z1, z2 render.Renderer
				var r1, r2 rec.Raster
				z1.SetRasterizer(&r1, rect)
				z2.SetRasterizer(&r2, rect)
				if err := decode.Decode(&z1, b); err != nil {
					w.Fail("encoded-run:rejected", fmt.Sprintf("run of %d arcs: stream %x rejected: %v", n, b, err), cs)
					continue
				}
				z2.Reset(ivg.DefaultViewBox, ivg.DefaultPalette)
				run(&z2)
				k := -1
				if len(r1.Calls) != len(r2.Calls) {
					k = min(len(r1.Calls), len(r2.Calls))
				}
				for i := 0; i < len(r1.Calls) && i < len(r2.Calls); i++ {
					if !r1.Calls[i].EqualGeom(&r2.Calls[i]) {
						k = i
						break
					}
				}
				if k >= 0 {
					w.Fail("encoded-run:differs", fmt.Sprintf("run of %d arcs (relative %v, high resolution %v) through Encoder and Decode: rasteriser call %d differs from the direct rendering (%d calls against %d)", n, rel == 1, hi == 1, k, len(r1.Calls), len(r2.Calls)), cs)
				}
				h := mc.NewHasher()
				h.Str("encoded-run")
				h.Byte(byte(n))
				w.Outcome(h.Sum(), true)
			}
		}
	}
}

func cubicAt(p0x, p0y float64, c *rec.RCall, t float64) (float64, float64) {
	s := 1 - t
	b0, b1, b2, b3 := s*s*s, 3*s*s*t, 3*s*t*t, t*t*t
	return b0*p0x + b1*float64(c.A[0]) + b2*float64(c.A[2]) + b3*float64(c.A[4]),
		b0*p0y + b1*float64(c.A[1]) + b2*float64(c.A[3]) + b3*float64(c.A[5])
}

func (st *c06State) check(cs *c06Case) {
	w := st.w
	w.Eval()
	vb, rect := c05VBs[cs.VB], c05Rects[cs.Rect]
	m := ref.NewMap(vb, rect)
	rx, ry, rot := b32f(cs.RX), b32f(cs.RY), b32f(cs.Rot)
	x1, y1, x, y := b32f(cs.X1), b32f(cs.Y1), b32f(cs.X), b32f(cs.Y)
	var z render.Renderer
	st.ras.Fresh()
	if cs.LA == cs.SW {
		z.SetRasterizer(&st.ras, rect)
		z.Reset(vb, ivg.DefaultPalette)
	} else {
		// the target is configured twice: another rectangle first, the final one only after Reset
		z.SetRasterizer(&st.ras, image.Rect(4, 2, 4+rect.Dy()+1, 2+rect.Dx()+6))
		z.Reset(vb, ivg.DefaultPalette)
		z.SetRasterizer(&st.ras, rect)
	}
	switch cs.Prefix {
	case 0:
		z.StartPath(0, x1, y1)
	case 1:
		z.StartPath(0, x1-3, y1+1)
		z.AbsArcTo(2.5, 4, 0.1, false, true, x1, y1)
	case 2:
		z.StartPath(0, x1-3, y1+1)
		z.RelArcTo(2.5, 4, 0.1, true, false, 5, -2)
		z.AbsArcTo(0, 3, 0, false, false, x1, y1)
	case 3:
		z.StartPath(0, x1+2, y1+2)
		z.RelCubeTo(1, 0, 2, 1, 3, 3)
		z.RelArcTo(1, 0, 0.25, true, true, -5, -5)
	case 4:
		// the previous graphic on this Renderer (viewBox twice as large, so that its point
		// (2*x1, 2*y1) is the pixel of (x1, y1) now) ended an arc exactly where this arc starts
		z.Reset(ivg.ViewBox{MinX: 2 * vb.MinX, MinY: 2 * vb.MinY, MaxX: 2 * vb.MaxX, MaxY: 2 * vb.MaxY}, ivg.DefaultPalette)
		z.StartPath(0, 2*x1-6, 2*y1+2)
		z.AbsArcTo(5, 8, 0.1, false, true, 2*x1, 2*y1)
		z.ClosePathEndPath()
		z.Reset(vb, ivg.DefaultPalette)
		z.StartPath(0, x1, y1)
	default:
		// an earlier path of the graphic is not drawn (outside its level-of-detail range) and
		// contains a relative arc
		z.StartPath(0, x1+3, y1+3) // (a drawn path first, so that the pen is somewhere else)
		z.AbsLineTo(x1+4, y1+5)
		z.ClosePathEndPath()
		z.SetLOD(10000, 20000)
		z.StartPath(0, x1+1, y1-1)
		z.RelArcTo(2, 3, 0.2, true, false, 3, 1)
		z.ClosePathEndPath()
		z.SetLOD(0, float32(math.Inf(1)))
		z.StartPath(0, x1, y1)
	}
	n0 := len(st.ras.Calls)
	ex, ey := x, y // arguments
	if cs.Rel {
		ex, ey = x-x1, y-y1
		z.RelArcTo(rx, ry, rot, cs.LA, cs.SW, ex, ey)
	} else {
		z.AbsArcTo(rx, ry, rot, cs.LA, cs.SW, x, y)
	}
	calls := st.ras.Calls[n0:]
	z.ClosePathEndPath()
	desc := func() string {
		return fmt.Sprintf("viewBox %v rect %v prefix %d: from (%g,%g) arc(rx=%g ry=%g rot=%g large=%v sweep=%v rel=%v) to args (%g,%g)", vb, rect, cs.Prefix, x1, y1, rx, ry, rot, cs.LA, cs.SW, cs.Rel, ex, ey)
	}
	fail := func(key, what string) {
		c := *cs
		c.Desc = desc()
		w.Fail(key, c.Desc+": "+what+"; rasteriser: "+rec.RCallsString(calls), c)
	}
	if len(calls) == 0 {
		fail("no-output", "arc produced no rasteriser call")
		return
	}
	// pen before the arc, and the mapped end point
	penX, penY := float64(calls[0].PenX), float64(calls[0].PenY)
	var endX, endY float64
	if cs.Rel {
		endX, endY = penX+m.RelX(float64(ex)), penY+m.RelY(float64(ey))
	} else {
		endX, endY = m.AbsX(float64(x)), m.AbsY(float64(y))
	}
	extent := math.Max(math.Max(math.Abs(endX), math.Abs(endY)), math.Max(math.Abs(penX), math.Abs(penY))) + math.Hypot(endX-penX, endY-penY) + 1
	h := mc.NewHasher()
	zero := rx == 0 || ry == 0
	if zero {
		c := &calls[0]
		if len(calls) != 1 || c.K != rec.RLineTo {
			fail("zero-radius:not-a-line", "an arc with a zero radius must be one straight line")
			return
		}
		if !(math.Abs(float64(c.A[0])-endX) <= 1e-4*extent && math.Abs(float64(c.A[1])-endY) <= 1e-4*extent) {
			fail("zero-radius:endpoint-unmapped", fmt.Sprintf("line should end at the mapped end point (%g,%g)", endX, endY))
			return
		}
		h.Byte(0)
		w.Outcome(h.Sum(), false)
		return
	}
	if len(calls) > 4 {
		fail("too-many-cubics", fmt.Sprintf("%d segments", len(calls)))
		return
	}
	for i := range calls {
		if calls[i].K != rec.RCubeTo {
			fail("not-cubics", "expected only CubeTo calls")
			return
		}
	}
	for i := range calls {
		for _, v := range calls[i].A {
			if math.IsNaN(float64(v)) || math.IsInf(float64(v), 0) {
				fail("non-finite", "an arc with finite moderate parameters produced a non-finite coordinate")
				return
			}
		}
	}
	last := &calls[len(calls)-1]
	if !(math.Abs(float64(last.A[4])-endX) <= 1e-4*extent && math.Abs(float64(last.A[5])-endY) <= 1e-4*extent) {
		fail("endpoint", fmt.Sprintf("last cubic should end at the mapped end point (%g,%g)", endX, endY))
		return
	}
	// reference ellipse in viewBox space, from the pen un-mapped and the end point un-mapped
	sx1, sy1 := m.UnX(penX), m.UnY(penY)
	sx2, sy2 := m.UnX(endX), m.UnY(endY)
	arc := ref.ArcCenter(sx1, sy1, sx2, sy2, float64(rx), float64(ry), 2*math.Pi*float64(rot), cs.LA, cs.SW)
	if arc.Degenerate || (arc.NearHalfTurn && !arc.Scaled) || math.Abs(arc.Lambda-1) < 1e-5 {
		// chord equal to a diameter (within float32 rounding of the pen): the centre is
		// ill-conditioned (sqrt of a cancelling difference) and the flags do not determine the arc
		w.Skip()
		w.Count("skipped_ill_conditioned", 1)
		return
	}
	if arc.Scaled && math.Abs(math.Abs(arc.DTheta)-math.Pi) < 1e-3 {
		// scaled-up radii always give a half turn; the centre is then ill-conditioned in the flags
	}
	// conditioning: the Renderer works from the float32 pen position; when the chord is much
	// shorter than the radii the centre moves by (rounding error) x (radius / chord). The
	// tolerance is widened by the movement of the reference centre under a 2-ulp perturbation
	// of the start point (negligible on the lattice proper, ~1e-4 for the 1/64 chords).
	eps := math.Ldexp(math.Max(1, math.Max(math.Max(math.Abs(sx1), math.Abs(sy1)), math.Max(math.Abs(sx2), math.Abs(sy2)))), -22)
	cond := 0.0
	for _, d := range [4][2]float64{{eps, 0}, {-eps, 0}, {0, eps}, {0, -eps}} {
		pa := ref.ArcCenter(sx1+d[0], sy1+d[1], sx2, sy2, float64(rx), float64(ry), 2*math.Pi*float64(rot), cs.LA, cs.SW)
		cond = math.Max(cond, math.Hypot(pa.CX-arc.CX, pa.CY-arc.CY)/math.Min(arc.RX, arc.RY))
	}
	if !(cond < 2e-3) {
		w.Skip()
		w.Count("skipped_short_chord_conditioning", 1)
		return
	}
	w.CountMax("conditioning_x1e9", int64(cond*1e9))
	px, py := penX, penY
	sum := 0.0
	prevAng := arc.AngleOf(sx1, sy1)
	for i := range calls {
		c := &calls[i]
		for _, t := range []float64{0.25, 0.5, 0.75, 1} {
			qx, qy := cubicAt(px, py, c, t)
			ux, uy := m.UnX(qx), m.UnY(qy)
			tol := 5e-4
			if t == 1 {
				tol = 1e-4
			}
			if d := arc.OnEllipse(ux, uy); !(d <= tol+cond) {
				key := "off-ellipse:interior"
				if t == 1 {
					key = "off-ellipse:endpoint"
				}
				fail(key, fmt.Sprintf("cubic %d at t=%g is at viewBox point (%g,%g), %.3g (relative) off the ellipse centre (%g,%g) radii (%g,%g)", i, t, ux, uy, d, arc.CX, arc.CY, arc.RX, arc.RY))
				return
			}
			ang := arc.AngleOf(ux, uy)
			d := ang - prevAng
			for d > math.Pi {
				d -= 2 * math.Pi
			}
			for d < -math.Pi {
				d += 2 * math.Pi
			}
			sum += d
			prevAng = ang
		}
		px, py = float64(c.A[4]), float64(c.A[5])
	}
	// direction and extent
	if math.IsNaN(sum) || cs.SW != (sum > 0) {
		fail("sweep-direction", fmt.Sprintf("accumulated sweep %.4f rad contradicts sweep flag %v", sum, cs.SW))
		return
	}
	if !arc.Scaled || math.Abs(math.Abs(sum)-math.Pi) > 1e-3 {
		if cs.LA != (math.Abs(sum) > math.Pi) {
			fail("large-arc-extent", fmt.Sprintf("accumulated sweep %.4f rad contradicts large-arc flag %v", sum, cs.LA))
			return
		}
	}
	if !(math.Abs(sum-arc.DTheta) <= 1e-3+2*cond) {
		fail("sweep-extent", fmt.Sprintf("accumulated sweep %.4f rad, reference %.4f rad", sum, arc.DTheta))
		return
	}
	h.Byte(byte(len(calls)))
	h.Bool(arc.Scaled)
	h.Bool(cs.LA)
	h.Bool(cs.SW)
	h.Bool(cs.Rel)
	w.Outcome(h.Sum(), true)
	if w.WantSample() && len(calls) == 3 {
		w.Sample(map[string]any{"case": desc(), "rasteriser": rec.RCallsString(calls)})
	}
}
