#!/bin/sh
# Regenerates the go build overlay from the current tree under test. /repo is never written.
V="$(cd "$(dirname "$0")/.." && pwd)"
R="${VERIF_REPO:-/repo}"
mkdir -p "$V/.bin"
cat > "$V/.bin/overlay.json" <<EOT
{"Replace": {
 "$R/encode/export_verif.go": "$V/inst/encode_export.go.txt",
 "$R/decode/export_verif.go": "$V/inst/decode_export.go.txt"
}}
EOT
