#!/bin/sh
# Regenerates the go build overlay from the current tree under test. /repo is never written.
V="$(cd "$(dirname "$0")/.." && pwd)"
R="${VERIF_REPO:-/repo}"
mkdir -p "$V/.bin"
OUT="${1:-$V/.bin/overlay.json}"
case "$OUT" in /*) ;; *) OUT="$V/$OUT";; esac
cat > "$OUT" <<EOT
{"Replace": {
 "$R/encode/export_verif.go": "$V/inst/encode_export.go.txt",
 "$R/decode/export_verif.go": "$V/inst/decode_export.go.txt"
}}
EOT
